#!/bin/sh
# Offline setup: the harness is pure Python run with /venv/bin/python (which has
# pokerkit's own dependencies); nothing to compile. Creates the scratch dirs.
set -e
cd "$(dirname "$0")"
mkdir -p .work evidence/replays
/venv/bin/python -c "import sys; sys.path.insert(0,'.'); import vflib.load" 
echo setup ok
