"""Shared shard loop for the history-based properties."""
from __future__ import annotations

import random
import time
import traceback

from vflib import gen, driver
from vflib.codec import enc, dec
from vflib.run import Shard, shard_seed, sig


def enc_cfg(cfg):
    return enc({k: v for k, v in cfg.items()})


def dec_cfg(d):
    cfg = dec(d)
    return cfg


def compress_kinds(kinds, limit=60):
    out = []
    for k in kinds:
        if out and out[-1][0] == k:
            out[-1][1] += 1
        else:
            out.append([k, 1])
    s = [k if c == 1 else f'{k}x{c}' for k, c in out]
    if len(s) > limit:
        s = s[:limit] + ['...']
    return ' '.join(s)


def payload_of(ctx):
    return {'cfg': enc_cfg(ctx.cfg), 'script': ctx.script,
            'pol': ctx.pol}


def exc_site(exc):
    tb = traceback.extract_tb(exc.__traceback__)
    frames = [f for f in tb if '/pokerkit/' in f.filename]
    f = frames[-1] if frames else tb[-1]
    return f'{f.name}:{(f.line or "").strip()}'


def default_sig(ctx):
    cfg = ctx.cfg
    fam = cfg.get('game') or cfg.get('template')
    return sig(fam, cfg['n'], ','.join(cfg['autos']), cfg['mode'],
               cfg['boards'], compress_kinds(ctx.kinds, 10 ** 6))


def run_history_shard(prop, seed, shard, of, tier, deadline, *, cases,
                      gen_kwargs, make_monitors, nontrivial, classify=None,
                      signature=default_sig, after_hand=None,
                      cfg_filter=None, pol_tweak=None, play=None,
                      explore_s=None, explore_nodes=None):
    """Play `cases[tier] / of` generated hands under the monitors.
    With explore_s = {tier: seconds} the shard first walks the complete
    decision trees of small games (vflib.explore) for that long."""
    res = Shard()
    rng = random.Random(shard_seed(seed, prop, shard))
    if explore_s and explore_s.get(tier):
        from vflib import explore
        xr = random.Random(shard_seed(seed, prop + ':explore', shard))
        budget = min(explore_s[tier], max(1.0, (deadline - time.time()) / 3))
        explore.run_exploration(
            res, prop, xr, make_monitors, budget,
            (explore_nodes or {}).get(tier, 3000), classify=classify,
            nontrivial=nontrivial, cfg_hook=cfg_filter)
    n = max(1, cases[tier] // of)
    for k in range(n):
        if time.time() > deadline:
            res.truncated = True
            break
        kwargs = gen_kwargs(rng) if callable(gen_kwargs) else gen_kwargs
        cfg = gen.gen_config(rng, **kwargs)
        if cfg_filter is not None:
            cfg = cfg_filter(cfg, rng)
            if cfg is None:
                continue
        pol = driver.gen_policy(rng)
        if pol_tweak is not None:
            pol_tweak(pol, cfg, rng)
        monitors = make_monitors()
        if play is not None:
            ctx = play(cfg, pol, monitors)
        else:
            ctx = driver.play_hand(cfg, pol, monitors, prop)
        res.evaluations += 1
        res.counters['operations_observed'] += ctx.nevents
        res.counters.update(ctx.counters)
        if 'ctor_exc' in ctx.data:
            res.counters['constructor_raised'] += 1
        if 'op_exc' in ctx.data:
            res.counters['hands_aborted_by_exception'] += 1
        if 'query_exc' in ctx.data and not ctx.violations:
            # the hand could not be played on: a yes/no query (or a read-only
            # accessor the client uses to choose) raised
            exc = ctx.data['query_exc']
            ctx.violate(
                f'a yes/no query raised {type(exc).__name__}: {exc} '
                f'[{exc_site(exc)}] after op #{ctx.nevents}; the hand cannot '
                f'be continued or judged')
            res.counters['hands_stopped_by_a_raising_query'] += 1
        if after_hand is not None:
            after_hand(ctx, res)
        for v in ctx.violations:
            kf = classify(ctx, v) if classify else None
            res.violation(
                f"{v['what']} || {gen.describe(cfg)} || "
                f"ops: {compress_kinds(ctx.kinds)}",
                payload_of(ctx), kf=kf)
        if ctx.state is not None and 'ctor_exc' not in ctx.data \
                and nontrivial(ctx):
            res.sigs.add(signature(ctx))
            res.add_sample({'config': gen.describe(cfg),
                            'operations': compress_kinds(ctx.kinds),
                            'tags': sorted(ctx.tags)})
    return res


def replay_history(payload, make_monitors, prop, classify=None):
    cfg = dec_cfg(payload['cfg'])
    monitors = make_monitors()
    ctx = driver.replay_script(cfg, payload['script'], monitors, prop)
    out = []
    for v in ctx.violations:
        kf = classify(ctx, v) if classify else None
        out.append({'what': v['what'], 'kf': kf})
    return out
