"""Load pokerkit from the tree under test and install the harness-side hooks.

Nothing here edits the repository: the hooks are attribute replacements made
from the harness at import time (DESIGN 1.2).
"""
from __future__ import annotations

import hashlib
import os
import sys
from collections import deque

REPO = os.path.abspath(os.environ.get('VF_REPO', '/repo'))
if sys.path[0] != REPO:
    sys.path.insert(0, REPO)

import pokerkit  # noqa: E402
import pokerkit.state as pk_state  # noqa: E402
import pokerkit.utilities as pk_util  # noqa: E402

if not os.path.abspath(pokerkit.__file__).startswith(REPO + os.sep):
    raise RuntimeError(f'pokerkit imported from {pokerkit.__file__}, '
                       f'expected {REPO}')

# --------------------------------------------------------------------------
# deterministic keyed shuffle

SHUFFLE_KEY = ['0']
SHUFFLE_CALLS = [0]
# when a list is installed here every shuffle REQUEST (the multiset of items
# handed to shuffle) is appended to it: the harness brackets constructor and
# operation calls with it, so the requests made by the engine's operations
# (not by the harness's own queries) can be compared between two runs
SHUFFLE_TRACE = [None]


def set_shuffle_key(key) -> None:
    SHUFFLE_KEY[0] = str(key)


def _rank(item) -> bytes:
    return hashlib.blake2b(
        (SHUFFLE_KEY[0] + '|' + repr(item)).encode(), digest_size=8,
    ).digest()


def det_shuffle(values) -> None:
    """In-place shuffle whose result depends only on (key, set of items)."""
    SHUFFLE_CALLS[0] += 1
    if SHUFFLE_TRACE[0] is not None:
        SHUFFLE_TRACE[0].append(tuple(sorted(map(repr, values))))
    items = sorted(values, key=_rank)
    if isinstance(values, deque):
        values.clear()
        values.extend(items)
    else:
        values[:] = items


_ORIG_STATE_SHUFFLE = pk_state.shuffle
_ORIG_UTIL_SHUFFLE = pk_util.shuffle


def install_shuffle() -> None:
    pk_state.shuffle = det_shuffle
    pk_util.shuffle = det_shuffle


def uninstall_shuffle() -> None:
    pk_state.shuffle = _ORIG_STATE_SHUFFLE
    pk_util.shuffle = _ORIG_UTIL_SHUFFLE


# --------------------------------------------------------------------------
# State._update hook: fires after every operation, automated ones included

State = pk_state.State
_ORIG_UPDATE = State._update
LISTENERS: list = []
HOOK_EVENTS = [0]


def _update_hook(self, operation=None):
    _ORIG_UPDATE(self, operation)
    if operation is not None:
        HOOK_EVENTS[0] += 1
        for listener in LISTENERS:
            listener(self, operation)


def install_update_hook() -> None:
    State._update = _update_hook


def uninstall_update_hook() -> None:
    State._update = _ORIG_UPDATE


install_shuffle()
install_update_hook()
