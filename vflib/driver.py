"""Client-boundary driver: the only code that calls operations (DESIGN 1.2-1.4).

It records every call (operation name + arguments) before invoking it, lets
the monitors observe the state at each decision point and after each
operation (through the State._update hook), and can replay a recorded script.
"""
from __future__ import annotations

from collections import Counter
import random
import warnings

from vflib import load
from vflib import gen
from vflib.codec import enc, dec
import pokerkit
from pokerkit import Card
from pokerkit.state import State

OPS = (
    'post_ante', 'collect_bets', 'post_blind_or_straddle', 'burn_card',
    'deal_hole', 'deal_board', 'stand_pat_or_discard', 'fold',
    'check_or_call', 'post_bring_in', 'complete_bet_or_raise_to',
    'select_runout_count', 'show_or_muck_hole_cards', 'kill_hand',
    'push_chips', 'pull_chips',
)
QUERY = {
    'post_ante': 'can_post_ante',
    'collect_bets': 'can_collect_bets',
    'post_blind_or_straddle': 'can_post_blind_or_straddle',
    'burn_card': 'can_burn_card',
    'deal_hole': 'can_deal_hole',
    'deal_board': 'can_deal_board',
    'stand_pat_or_discard': 'can_stand_pat_or_discard',
    'fold': 'can_fold',
    'check_or_call': 'can_check_or_call',
    'post_bring_in': 'can_post_bring_in',
    'complete_bet_or_raise_to': 'can_complete_bet_or_raise_to',
    'select_runout_count': 'can_select_runout_count',
    'show_or_muck_hole_cards': 'can_show_or_muck_hole_cards',
    'kill_hand': 'can_kill_hand',
    'push_chips': 'can_push_chips',
    'pull_chips': 'can_pull_chips',
}
VERIFY = {
    'post_ante': 'verify_ante_posting',
    'collect_bets': 'verify_bet_collection',
    'post_blind_or_straddle': 'verify_blind_or_straddle_posting',
    'burn_card': 'verify_card_burning',
    'deal_hole': 'verify_hole_dealing',
    'deal_board': 'verify_board_dealing',
    'stand_pat_or_discard': 'verify_standing_pat_or_discarding',
    'fold': 'verify_folding',
    'check_or_call': 'verify_checking_or_calling',
    'post_bring_in': 'verify_bring_in_posting',
    'complete_bet_or_raise_to': 'verify_completion_betting_or_raising_to',
    'select_runout_count': 'verify_runout_count_selection',
    'show_or_muck_hole_cards': 'verify_hole_cards_showing_or_mucking',
    'kill_hand': 'verify_hand_killing',
    'push_chips': 'verify_chips_pushing',
    'pull_chips': 'verify_chips_pulling',
}
# phase of each operation (C07)
PHASE = {
    'post_ante': 'ante', 'collect_bets': 'collect',
    'post_blind_or_straddle': 'blind', 'burn_card': 'deal',
    'deal_hole': 'deal', 'deal_board': 'deal',
    'stand_pat_or_discard': 'deal', 'fold': 'bet', 'check_or_call': 'bet',
    'post_bring_in': 'bet', 'complete_bet_or_raise_to': 'bet',
    'select_runout_count': 'showdown', 'show_or_muck_hole_cards': 'showdown',
    'kill_hand': 'kill', 'push_chips': 'push', 'pull_chips': 'pull',
}
OPCLASS = {
    'AntePosting': 'post_ante', 'BetCollection': 'collect_bets',
    'BlindOrStraddlePosting': 'post_blind_or_straddle',
    'CardBurning': 'burn_card', 'HoleDealing': 'deal_hole',
    'BoardDealing': 'deal_board',
    'StandingPatOrDiscarding': 'stand_pat_or_discard', 'Folding': 'fold',
    'CheckingOrCalling': 'check_or_call', 'BringInPosting': 'post_bring_in',
    'CompletionBettingOrRaisingTo': 'complete_bet_or_raise_to',
    'RunoutCountSelection': 'select_runout_count',
    'HoleCardsShowingOrMucking': 'show_or_muck_hole_cards',
    'HandKilling': 'kill_hand', 'ChipsPushing': 'push_chips',
    'ChipsPulling': 'pull_chips', 'NoOperation': 'no_operate',
}
AUTO_OF = {
    'post_ante': 'ANTE_POSTING', 'collect_bets': 'BET_COLLECTION',
    'post_blind_or_straddle': 'BLIND_OR_STRADDLE_POSTING',
    'burn_card': 'CARD_BURNING', 'deal_hole': 'HOLE_DEALING',
    'deal_board': 'BOARD_DEALING',
    'select_runout_count': 'RUNOUT_COUNT_SELECTION',
    'show_or_muck_hole_cards': 'HOLE_CARDS_SHOWING_OR_MUCKING',
    'kill_hand': 'HAND_KILLING', 'push_chips': 'CHIPS_PUSHING',
    'pull_chips': 'CHIPS_PULLING',
}


def opname(operation) -> str:
    return OPCLASS[type(operation).__name__]


def available(state) -> list[str]:
    """The sixteen default-argument queries."""
    return [op for op in OPS if getattr(state, QUERY[op])()]


class Violation(Exception):
    pass


class Ctx:
    """Per-hand context shared by the driver and the monitors."""

    def __init__(self, cfg, monitors, prop=None):
        self.cfg = cfg
        self.monitors = monitors
        self.prop = prop
        self.state = None
        self.script = []          # [[op, [args...]], ...] client calls
        self.violations = []      # dicts {prop, what, ...}
        self.counters = Counter()
        self.tags = set()         # feature tags seen in this hand
        self.kinds = []           # sequence of operation kinds (all ops)
        self.nevents = 0
        self.warned = []          # warnings recorded in lenient mode
        self.last_client = None
        self.data = {}            # scratch for monitors

    def violate(self, what, **kw):
        if len(self.violations) < 20:
            d = {'what': what}
            d.update(kw)
            self.violations.append(d)

    def tag(self, t):
        self.tags.add(t)


def _listener_for(ctx):
    def listener(state, operation):
        if ctx.state is None:
            ctx.state = state       # constructor cascade
        elif state is not ctx.state:
            return                  # probes on copies are not the history
        ctx.nevents += 1
        ctx.kinds.append(opname(operation))
        trace, load.SHUFFLE_TRACE[0] = load.SHUFFLE_TRACE[0], None
        try:
            for m in ctx.monitors:
                m.on_op(ctx, state, operation)
        finally:
            load.SHUFFLE_TRACE[0] = trace
    return listener


def encode_args(args):
    return [enc(a) for a in args]


def decode_args(args):
    return [dec(a) for a in args]


class HandAbort(Exception):
    pass


def start_hand(cfg, monitors, prop=None):
    """Create ctx + state under the hooks; returns ctx (ctx.state None if the
    constructor raised; then ctx.data['ctor_exc'] holds the exception)."""
    ctx = Ctx(cfg, monitors, prop)
    load.set_shuffle_key(cfg['seed'])
    listener = _listener_for(ctx)
    ctx._listener = listener
    load.LISTENERS.append(listener)
    for m in monitors:
        m.on_begin(ctx)
    ctx.data['shuffle_requests'] = []
    load.SHUFFLE_TRACE[0] = ctx.data['shuffle_requests']
    try:
        state = gen.build_state(cfg)
    except Exception as exc:     # noqa: BLE001
        load.SHUFFLE_TRACE[0] = None
        ctx.data['ctor_exc'] = exc
        for m in monitors:
            m.on_ctor_failed(ctx, exc)
        return ctx
    load.SHUFFLE_TRACE[0] = None
    if ctx.state is None:
        ctx.state = state
    assert ctx.state is state
    for m in monitors:
        m.on_created(ctx, state)
    return ctx


def finish_hand(ctx):
    if ctx._listener in load.LISTENERS:
        load.LISTENERS.remove(ctx._listener)


def apply_call(ctx, name, args, commentary=None):
    """Record and perform one client call; returns the operation record."""
    state = ctx.state
    if commentary is None:
        ctx.script.append([name, encode_args(args)])
    else:
        ctx.script.append([name, encode_args(args), commentary])
    for m in ctx.monitors:
        m.on_call(ctx, state, name, args)
    load.SHUFFLE_TRACE[0] = ctx.data.get('shuffle_requests')
    try:
        if commentary is None:
            result = getattr(state, name)(*args)
        else:
            result = getattr(state, name)(*args, commentary=commentary)
    except Exception as exc:    # noqa: BLE001
        load.SHUFFLE_TRACE[0] = None
        for m in ctx.monitors:
            m.on_call_failed(ctx, state, name, args, exc)
        raise
    load.SHUFFLE_TRACE[0] = None
    for m in ctx.monitors:
        m.on_return(ctx, state, name, args, result)
    return result


# --------------------------------------------------------------------------
# policies

COMMENTS = ('nice hand', "it's a trap", 'tank 2:30', 'x # y', 'All-in!',
            'with  two  spaces', 'UTG "the kid"')
POLICIES = ('uniform', 'passive', 'aggressive', 'foldy', 'drawheavy', 'allin')
DEAL_MODES = ('default', 'explicit', 'chunks', 'anyorder')


def _amount_choices(state, rng):
    lo = state.min_completion_betting_or_raising_to_amount
    hi = state.max_completion_betting_or_raising_to_amount
    pot = state.pot_completion_betting_or_raising_to_amount
    if isinstance(lo, int) and isinstance(hi, int):
        c = [lo, hi, min(hi, lo + 1), (lo + hi) // 2,
             rng.randint(lo, hi)]
        if lo <= pot <= hi:
            c.append(pot)
        c.append(None)
    else:
        c = [lo, hi, lo + (hi - lo) / 2, lo + (hi - lo) / 4, None]
    return c


def runout_room(state) -> int:
    """How many run-outs the remaining cards can serve (>= 1)."""
    if state.street_index is None:
        return 1
    need = 0
    for i in range(state.street_index + 1, state.street_count):
        s = state.streets[i]
        need += s.board_dealing_count * state.starting_board_count
        need += 1 if s.card_burning_status else 0
        need += len(s.hole_dealing_statuses) * sum(state.statuses)
    if not need:
        return 3
    have = len(tuple(state.get_dealable_cards()))
    return max(1, have // need)


RANKS = '23456789TJQKA'


def _rigged_plan(s, pol, rng):
    """Cards for a 'rigged' deal: a board that is a made hand (straight
    flush, quads, flush, straight, full house, wheel) and hole cards from its
    neighbourhood (adjacent ranks, same suit, same ranks), so that playing
    the board, counterfeits, kicker and suit questions and exact ties are
    common instead of practically impossible."""
    plan = pol.get('_plan')
    if plan is not None:
        return plan
    avail = {repr(c) for c in s.get_dealable_cards()}
    ranks = [r for r in RANKS if any(r + x in avail for x in 'cdhs')]
    kind = rng.choice(['sf', 'sf', 'quads', 'flush', 'straight', 'full',
                       'wheel', 'trips', 'royal', 'quadsA', 'mono', 'mono',
                       'mirror'])
    if kind == 'mirror':
        # rank-mirrored double-suited holdings (As Ks Ah Kh): the two-card
        # combinations of such a hand repeat the same ranks in different
        # suits; the board is three to five cards of one of those suits
        left = set(avail)
        holes = []
        for i in range(s.player_count):
            h = []
            for _ in range(20):
                a, b = rng.sample(ranks, 2)
                x, y = rng.sample('cdhs', 2)
                cand = [a + x, b + x, a + y, b + y]
                if all(c in left for c in cand):
                    h = cand
                    left -= set(cand)
                    break
            holes.append(h)
        extra = sorted(left)
        rng.shuffle(extra)
        for h in holes:
            while len(h) < 7 and extra:
                h.append(extra.pop())
        suit = rng.choice('cdhs')
        flush = [c for c in extra if c[1] == suit]
        board = flush[:rng.randint(3, 5)]
        board += [c for c in extra if c not in board][:15]
        lead = board[:5]
        rng.shuffle(lead)
        plan = {'kind': kind, 'board': lead + board[5:], 'holes': holes}
        pol['_plan'] = plan
        return plan
    if kind == 'mono':
        # degenerate holdings: every player's cards are of ONE suit (badugi
        # one-card hands, lowball flushes, boards nobody connects with);
        # the board comes from whatever is left
        pool = {x: [c for c in sorted(avail) if c[1] == x] for x in 'cdhs'}
        for x in pool:
            rng.shuffle(pool[x])
        holes = []
        off = rng.randrange(4)
        for i in range(s.player_count):
            src = pool['cdhs'[(i + off) % 4]]
            holes.append([src.pop() for _ in range(min(7, len(src)))])
        used = {c for h in holes for c in h}
        board = [c for c in sorted(avail) if c not in used]
        rng.shuffle(board)
        plan = {'kind': kind, 'board': board[:15], 'holes': holes}
        pol['_plan'] = plan
        return plan
    suit = rng.choice('cdhs')
    j = rng.randrange(max(1, len(ranks) - 4))
    run = ranks[j:j + 5]
    others = [x for x in 'cdhs' if x != suit]
    if kind == 'royal':
        # the board is the nuts: every live hand plays it
        board = [r + suit for r in ranks[-5:]]
    elif kind == 'quadsA':
        a = ranks[-1]
        b = ranks[-2]
        board = [b + x for x in 'cdhs'] + [a + suit]
    elif kind == 'sf':
        board = [r + suit for r in run]
    elif kind == 'straight':
        board = [r + rng.choice('cdhs') for r in run]
    elif kind == 'wheel':
        board = [r + rng.choice('cdhs') for r in 'A2345']
    elif kind == 'flush':
        board = [r + suit for r in rng.sample(ranks, min(5, len(ranks)))]
    elif kind == 'quads':
        r = rng.choice(ranks)
        board = [r + x for x in 'cdhs'] + [rng.choice(ranks) + suit]
    elif kind == 'full':
        a, b = rng.sample(ranks, 2)
        board = [a + x for x in rng.sample('cdhs', 3)] + \
            [b + x for x in rng.sample('cdhs', 2)]
    else:
        a = rng.choice(ranks)
        board = [a + x for x in rng.sample('cdhs', 3)] + \
            [r + rng.choice('cdhs') for r in rng.sample(ranks, 2)]
    board = [c for k, c in enumerate(board)
             if c in avail and c not in board[:k]]
    rng.shuffle(board)
    near = set()
    for c in board:
        r, x = c[0], c[1]
        k = RANKS.index(r)
        for d in (-2, -1, 1, 2):
            if 0 <= k + d < 13:
                near.add(RANKS[k + d] + x)
                near.add(RANKS[k + d] + rng.choice('cdhs'))
        for y in 'cdhs':
            near.add(r + y)
    near = [c for c in sorted(near) if c in avail and c not in board]
    rng.shuffle(near)
    rest = [c for c in sorted(avail) if c not in board and c not in near]
    rng.shuffle(rest)
    holes = []
    for i in range(s.player_count):
        h = []
        for _ in range(7):
            src = near if near and rng.random() < 0.6 else (rest or near)
            if not src:
                break
            h.append(src.pop())
        holes.append(h)
    plan = {'kind': kind, 'board': board, 'holes': holes}
    pol['_plan'] = plan
    return plan


def _planned(s, wanted, k):
    """The first k planned cards that are still dealable, topped up with
    other dealable cards."""
    ok = {repr(c) for c in s.get_dealable_cards(k)}
    out = []
    while wanted and len(out) < k:
        c = wanted.pop(0)
        if c in ok and c not in out:
            out.append(c)
    for c in sorted(ok):
        if len(out) >= k:
            break
        if c not in out and c not in wanted:
            out.append(c)
    return out[:k]


def choose(state, avail, rng, pol):
    """Pick (name, args) among the available operations."""
    policy = pol['policy']
    weights = []
    for op in avail:
        w = 1.0
        if op == 'fold':
            w = {'foldy': 3.0, 'passive': 0.15, 'aggressive': 0.3,
                 'allin': 0.1}.get(policy, 0.7)
        elif op == 'check_or_call':
            w = {'passive': 6.0, 'aggressive': 1.0, 'foldy': 1.0,
                 'allin': 1.0}.get(policy, 2.0)
        elif op == 'complete_bet_or_raise_to':
            w = {'passive': 0.3, 'aggressive': 3.0, 'foldy': 0.7,
                 'allin': 4.0}.get(policy, 1.0)
        weights.append(w)
    fs = pol.get('fold_seats')
    if fs:
        fs = {int(k): v for k, v in fs.items()}    # JSON round trip
    if fs and 'fold' in avail and state.actor_index in fs and \
            state.street_index is not None and \
            state.street_index >= fs[state.actor_index]:
        return 'fold', []
    if pol.get('voluntary_show') and state.street_index is None and \
            rng.random() < pol['voluntary_show']:
        # outside the showdown (forced bets not yet posted, or chips being
        # pushed / pulled by hand) a player may turn his cards face up with
        # an explicit index -- the documented "show after the hand" feature
        cand = [i for i in state.player_indices if state.hole_cards[i]
                and all(state.hole_cards[i])
                and not all(state.hole_card_statuses[i])
                and state.can_show_or_muck_hole_cards(True, i)]
        if cand:
            return 'show_or_muck_hole_cards', [True, rng.choice(cand)]
    op = rng.choices(avail, weights)[0]
    args = []
    s = state
    dm = pol['deal']
    if op in ('post_ante', 'post_blind_or_straddle', 'kill_hand',
              'pull_chips'):
        if pol['explicit_index'] and rng.random() < 0.5:
            pending = {
                'post_ante': s.ante_posting_statuses,
                'post_blind_or_straddle':
                    s.blind_or_straddle_posting_statuses,
                'kill_hand': s.hand_killing_statuses,
                'pull_chips': s.chips_pulling_statuses,
            }[op]
            args = [rng.choice([i for i, p in enumerate(pending) if p])]
    elif op == 'burn_card':
        if dm in ('unknown', 'mixedunknown') and rng.random() < 0.7:
            args = ['??']
        elif dm == 'explicit' and rng.random() < 0.7:
            cards = tuple(s.get_dealable_cards(1))
            if cards:
                args = [repr(rng.choice(cards[:max(1, len(cards))]))]
    elif op == 'deal_hole' and dm == 'rigged':
        plan = _rigged_plan(s, pol, rng)
        i = s.hole_dealee_index
        k = len(s.hole_dealing_statuses[i])
        cards = _planned(s, plan['holes'][i], k)
        if len(cards) == k:
            args = [''.join(cards), i]
    elif op == 'deal_board' and dm == 'rigged':
        plan = _rigged_plan(s, pol, rng)
        k = s.board_dealing_count
        cards = _planned(s, plan['board'], k)
        if len(cards) == k:
            args = [''.join(cards)]
    elif op == 'deal_hole' and dm == 'mixedunknown':
        # hand-history style: the down cards of one or two seats were never
        # recorded (??), everybody else's cards are dealt from the deck
        i = s.hole_dealee_index
        if i in pol.get('unknown_seats', ()):
            st = list(s.hole_dealing_statuses[i])
            k = 0
            while k < len(st) and not st[k]:
                k += 1
            if pol.get('unknown_up'):
                k = len(st)      # the seat's up cards were not recorded either
            if k:
                args = ['??' * k, i]
    elif op == 'deal_hole':
        if dm == 'unknown':
            i = s.hole_dealee_index
            st = list(s.hole_dealing_statuses[i])
            k = 0
            while k < len(st) and not st[k]:
                k += 1
            if k and rng.random() < 0.85:
                args = ['??' * rng.randint(1, k)]
        elif dm in ('explicit', 'fewranks') and rng.random() < 0.8:
            i = s.hole_dealee_index
            k = rng.randint(1, len(s.hole_dealing_statuses[i]))
            cards = tuple(s.get_dealable_cards(k))
            if dm == 'fewranks':
                few = [c for c in cards if c.rank.value in pol['ranks']]
                if len(few) >= k:
                    cards = few
            if len(cards) >= k:
                pick = rng.sample(cards, k)
                toks = [repr(c) for c in pick]
                if pol.get('mix_unknown') and k >= 2 and \
                        rng.random() < pol['mix_unknown']:
                    # one call mixing recorded and unrecorded (??) down cards
                    st = list(s.hole_dealing_statuses[i])[:k]
                    down = [j for j in range(k) if not st[j]]
                    if len(down) >= 1:
                        for j in rng.sample(down, rng.randint(
                                1, max(1, len(down) - 1))):
                            toks[j] = '??'
                        if all(t == '??' for t in toks):
                            toks[0] = repr(pick[0])
                args = [''.join(toks)]
                if rng.random() < 0.3:
                    args.append(i)
        elif dm == 'chunks' and rng.random() < 0.7:
            i = s.hole_dealee_index
            args = [rng.randint(1, len(s.hole_dealing_statuses[i]))]
        elif dm == 'anyorder' and rng.random() < 0.7:
            cand = [i for i in s.player_indices if s.hole_dealing_statuses[i]]
            i = rng.choice(cand)
            args = [rng.randint(1, len(s.hole_dealing_statuses[i])), i]
    elif op == 'deal_board' and dm == 'unknownboard':
        # anonymised / partly recorded boards: ??, unknown rank, unknown suit
        toks = []
        for _ in range(s.board_dealing_count):
            k = rng.random()
            if k < 0.35:
                toks.append('??')
            elif k < 0.55:
                toks.append('?' + rng.choice('cdhs'))
            elif k < 0.75:
                toks.append(rng.choice(RANKS) + '?')
            else:
                cs = tuple(s.get_dealable_cards(1))
                toks.append(repr(rng.choice(cs)) if cs else '??')
        args = [''.join(toks)]
    elif op == 'deal_board':
        cnt = s.board_dealing_count
        if dm in ('explicit', 'fewranks') and rng.random() < 0.8:
            k = rng.randint(1, cnt)
            cards = tuple(s.get_dealable_cards(k))
            if dm == 'fewranks':
                few = [c for c in cards if c.rank.value in pol['ranks']]
                if len(few) >= k:
                    cards = few
            if len(cards) >= k:
                args = [''.join(map(repr, rng.sample(cards, k)))]
        elif dm in ('chunks', 'anyorder') and rng.random() < 0.6:
            args = [rng.randint(1, cnt)]
    elif op == 'stand_pat_or_discard':
        i = s.stander_pat_or_discarder_index
        held = list(s.hole_cards[i])
        if policy == 'drawheavy':
            k = rng.randint(max(0, len(held) - 2), len(held))
        else:
            k = rng.choice([0, 0, 1, 2, rng.randint(0, len(held))])
        k = min(k, len(held))
        pick = rng.sample(held, k)
        if pick or rng.random() < 0.5:
            form = rng.random()
            if form < 0.6:
                args = [''.join(map(repr, pick))]
            else:
                args = [tuple(pick)]
    elif op == 'complete_bet_or_raise_to':
        c = _amount_choices(s, rng)
        if policy == 'allin':
            a = s.max_completion_betting_or_raising_to_amount
        else:
            a = rng.choice(c)
        if a is not None and pol.get('amount_cast') == 'Decimal' and \
                isinstance(a, int) and rng.random() < 0.6:
            from decimal import Decimal
            a = Decimal(a)
        args = [] if a is None else [a]
    elif op == 'select_runout_count':
        room = min(3, runout_room(s))
        pref = rng.choice([None, None, 1, 2, 3, pol['runout_pref']])
        if pref is not None and pref > room:
            pref = room
        pending = [i for i, p in enumerate(s.runout_count_selector_statuses)
                   if p]
        if rng.random() < 0.5:
            args = [pref, rng.choice(pending)]
        else:
            args = [pref]
    elif op == 'show_or_muck_hole_cards':
        i = s.showdown_index
        if pol['explicit_index'] and rng.random() < 0.3:
            i = rng.choice(list(s.showdown_indices))
        k = rng.random()
        if not all(s.hole_cards[i]) and pol.get('keep_unknown') and \
                rng.random() < pol['keep_unknown']:
            # unknown hole cards stay unknown: the hand is "shown" face down
            # (anonymised histories do this)
            a = ''.join(repr(c) if c else '??' for c in s.hole_cards[i])
            if s.can_show_or_muck_hole_cards(a, i):
                return op, [a, i]
        if not all(s.hole_cards[i]):
            # unknown hole cards: reveal them with fresh cards
            nun = sum(1 for c in s.hole_cards[i] if not c)
            fresh = [c for c in s.get_dealable_cards(nun)
                     if c not in s.hole_cards[i]]
            rng.shuffle(fresh)
            if len(fresh) >= sum(1 for c in s.hole_cards[i] if not c):
                shown = [c if c else fresh.pop() for c in s.hole_cards[i]]
                return op, [''.join(map(repr, shown)), i]
        if pol.get('partial_show') and rng.random() < 0.35 \
                and len(s.hole_cards[i]) > 1:
            # (with 'empty_show' the player may also keep every card face
            # down and stay in: he then plays the board)
            m = rng.randint(0 if pol.get('empty_show') else 1,
                            len(s.hole_cards[i]) - 1)
            part = rng.sample(list(s.hole_cards[i]), m)
            if s.can_show_or_muck_hole_cards(tuple(part), i):
                return op, [''.join(map(repr, part)), i]
        mp = pol.get('muck_p', 0.1)
        if k < 0.4 * (1 - mp):
            a = None
        elif k < 0.8 * (1 - mp):
            a = True
        elif k < 1 - mp:
            a = ''.join(map(repr, s.hole_cards[i]))
        else:
            a = None
            if pol['muck'] == 'any' or (
                    pol['muck'] == 'losers' and not s.all_in_status
                    and not s.can_win_now(i)):
                if s.can_show_or_muck_hole_cards(False, i):
                    a = False
        if a is None and i == s.showdown_index and rng.random() < 0.5:
            args = []
        else:
            args = [a, i]
    return op, args


def gen_policy(rng):
    return {
        'policy': rng.choice(POLICIES),
        'deal': rng.choice(DEAL_MODES),
        'explicit_index': rng.random() < 0.5,
        'runout_pref': rng.choice([1, 2, 2, 3]),
        'muck': rng.choice(['never', 'losers']),
        'pseed': rng.getrandbits(32),
        'partial_show': False,
        'ranks': ''.join(rng.sample('A23456789TJQK', rng.choice([2, 3, 4]))),
    }


def op_bound(state) -> int:
    """Bound on the number of operations of a hand (C07 bounded progress)."""
    n = state.player_count
    total = sum(state.starting_stacks)
    bound = 4 * n + 10
    runs = 3 * state.starting_board_count
    for st in state.streets:
        mb = st.min_completion_betting_or_raising_amount
        raises = st.max_completion_betting_or_raising_count
        if raises is None:
            try:
                raises = int(total / mb) + n + 2
            except (OverflowError, ValueError):
                raises = 10 ** 6
        per = 1 + n * max(1, len(st.hole_dealing_statuses)) \
            + st.board_dealing_count * state.starting_board_count + 2 * n
        per += n * (raises + 2) + 2
        bound += per * runs
    bound += 3 * n * runs * len(state.hand_types) * (n + 1) + 2 * n
    return bound


def fork_state(ctx, nops, seed):
    """Continue the monitored hand on a deep copy while the original is
    advanced elsewhere (what a tree search does with states): the monitors
    follow the copy from here on and must not notice the difference."""
    from copy import deepcopy
    original = ctx.state
    clone = deepcopy(original)
    ctx.state = clone
    ctx.counters['forks'] += 1
    rng = random.Random(seed)
    pol = gen_policy(rng)
    key = load.SHUFFLE_KEY[0]
    try:
        with warnings.catch_warnings():
            warnings.simplefilter('ignore')
            for _ in range(nops):
                av = available(original)
                if not av:
                    break
                name, args = choose(original, av, rng, pol)
                getattr(original, name)(*args)
                ctx.counters['abandoned_branch_operations'] += 1
    except Exception:       # noqa: BLE001  (the abandoned branch is no oracle)
        pass
    finally:
        load.SHUFFLE_KEY[0] = key
    ctx.data.setdefault('abandoned', []).append(original)   # keep it alive
    return clone


def play_hand(cfg, pol, monitors, prop=None, max_ops=None):
    """Generate and play one history under the monitors. Returns ctx."""
    rng = random.Random(pol['pseed'])
    with warnings.catch_warnings():
        warnings.simplefilter('error' if cfg['strict'] else 'ignore')
        ctx = start_hand(cfg, monitors, prop)
        ctx.pol = pol
        try:
            state = ctx.state
            if state is None or 'ctor_exc' in ctx.data:
                return ctx
            cap = max_ops or op_bound(state)
            steps = 0
            while True:
                try:
                    avail = available(state)
                except Exception as exc:    # noqa: BLE001
                    # one of the sixteen yes/no queries raised
                    ctx.data['op_exc'] = ('<query>', [], exc)
                    ctx.data['query_exc'] = exc
                    break
                for m in monitors:
                    m.on_decision(ctx, state, avail)
                if ctx.violations or not avail:
                    break
                if pol.get('fork_p') and 'forked' not in ctx.data and \
                        ctx.script and random.Random(
                            pol['pseed'] * 31 + len(ctx.script)
                        ).random() < pol['fork_p']:
                    ctx.data['forked'] = True
                    fa = [random.Random(pol['pseed'] ^ 0xf0).randint(1, 12),
                          pol['pseed'] ^ 0xf04c]
                    ctx.script.append(['__fork__', fa])
                    state = fork_state(ctx, *fa)
                    continue
                try:
                    name, args = choose(state, avail, rng, pol)
                except Exception as exc:    # noqa: BLE001
                    # a query or a read-only accessor raised while the
                    # client was making up its mind
                    ctx.data['op_exc'] = ('<query>', [], exc)
                    ctx.data['query_exc'] = exc
                    break
                com = None
                if pol.get('commentary') and rng.random() < 0.12:
                    com = rng.choice(COMMENTS)
                try:
                    apply_call(ctx, name, args, com)
                except HandAbort:
                    break
                except Exception as exc:   # noqa: BLE001
                    ctx.data['op_exc'] = (name, args, exc)
                    break
                steps += 1
                if steps > cap:
                    ctx.data['too_long'] = steps
                    break
            for m in monitors:
                m.on_end(ctx, state)
        finally:
            finish_hand(ctx)
    return ctx


def replay_script(cfg, script, monitors, prop=None, stop_at=None):
    """Re-apply a recorded script under the monitors. Returns ctx."""
    with warnings.catch_warnings():
        warnings.simplefilter('error' if cfg['strict'] else 'ignore')
        ctx = start_hand(cfg, monitors, prop)
        ctx.pol = None
        try:
            state = ctx.state
            if state is None or 'ctor_exc' in ctx.data:
                return ctx
            for k, entry in enumerate(script):
                name, args = entry[0], entry[1]
                com = entry[2] if len(entry) > 2 else None
                if stop_at is not None and k >= stop_at:
                    break
                if name == '__fork__':
                    ctx.script.append([name, args])
                    state = fork_state(ctx, *args)
                    continue
                try:
                    avail = available(state)
                except Exception as exc:    # noqa: BLE001
                    ctx.data['op_exc'] = ('<query>', [], exc)
                    ctx.data['query_exc'] = exc
                    break
                for m in monitors:
                    m.on_decision(ctx, state, avail)
                if ctx.violations:
                    break
                try:
                    apply_call(ctx, name, decode_args(args), com)
                except Exception as exc:    # noqa: BLE001
                    ctx.data['op_exc'] = (name, args, exc)
                    break
            else:
                try:
                    avail = available(state)
                    for m in monitors:
                        m.on_decision(ctx, state, avail)
                except Exception as exc:    # noqa: BLE001
                    if 'query_exc' not in ctx.data:
                        ctx.data['op_exc'] = ('<query>', [], exc)
                        ctx.data['query_exc'] = exc
            for m in monitors:
                m.on_end(ctx, state)
        finally:
            finish_hand(ctx)
    return ctx


class Monitor:
    """Base class: all callbacks optional."""

    name = 'monitor'

    def on_begin(self, ctx): pass
    def on_ctor_failed(self, ctx, exc): pass
    def on_created(self, ctx, state): pass
    def on_op(self, ctx, state, operation): pass
    def on_decision(self, ctx, state, avail): pass
    def on_call(self, ctx, state, name, args): pass
    def on_call_failed(self, ctx, state, name, args, exc): pass
    def on_return(self, ctx, state, name, args, result): pass
    def on_end(self, ctx, state): pass


class Observer(Monitor):
    """A nosy client: at a share of the decision points it calls the pure
    read-only API (hand evaluation, pots, censored views, dealable cards,
    effective stacks ...).  It asserts nothing -- the point is that the
    property monitors running beside it must not notice it: behaviour may
    depend on the history of operations only, never on what was *asked*
    in between (memoised answers going stale, lazily built structures)."""

    name = 'observer'

    def __init__(self, p=0.15):
        self.p = p

    def on_begin(self, ctx):
        self.rng = random.Random((ctx.cfg['seed'] << 4) ^ 0x0b5e)
        self.active = self.rng.random() < 0.6

    def on_decision(self, ctx, s, avail):
        late = bool(avail) and PHASE[avail[0]] in ('showdown', 'kill', 'push')
        # (the showdown is where stale answers would matter most and it
        # has few decisions: an active observer asks at every one of them)
        if not self.active or (not late and self.rng.random() > self.p):
            return
        ctx.counters['observer_query_points'] += 1
        calls = 0

        def ask(f, *a):
            nonlocal calls
            calls += 1
            try:
                r = f(*a)
                if r is not None and not isinstance(
                        r, (int, float, str, bool, tuple, list)) \
                        and hasattr(r, '__iter__'):
                    r = list(r)
                return r
            except Exception:    # noqa: BLE001  (the observer is no oracle)
                return None
        some = self.rng.sample(list(s.player_indices),
                               min(3, s.player_count))
        for i in some:      # (hand evaluation is the costly part)
            ask(s.can_win_now, i)
            ask(s.get_censored_hole_cards, i)
            ask(s.get_down_cards, i)
            ask(s.get_up_cards, i)
            for t in s.hand_type_indices:
                ask(s.get_up_hand, i, t)
                for b in s.board_indices:
                    ask(s.get_hand, i, b, t)
            ask(s.get_effective_ante, i)
            ask(s.get_effective_blind_or_straddle, i)
            if s.statuses[i]:
                ask(s.get_effective_stack, i)
        for b in s.board_indices:
            ask(s.get_board_cards, b)
        ask(lambda: list(s.pots))
        ask(lambda: s.total_pot_amount)
        ask(lambda: list(s.get_dealable_cards()))
        ask(lambda: list(s.cards_in_play))
        ask(lambda: list(s.cards_not_in_play))
        ask(lambda: list(s.reserved_cards))
        for name in ('actor_index', 'turn_index', 'showdown_index',
                     'hole_dealee_index', 'stander_pat_or_discarder_index',
                     'checking_or_calling_amount',
                     'effective_bring_in_amount',
                     'min_completion_betting_or_raising_to_amount',
                     'pot_completion_betting_or_raising_to_amount',
                     'max_completion_betting_or_raising_to_amount',
                     'board_count', 'total_pot_amount'):
            ask(lambda n=name: getattr(s, n))
        ctx.counters['observer_queries'] += calls


class Interleaver(Monitor):
    """Another table in the same process: at a share of the decision points
    of the monitored hand a second, unrelated State (other game, other
    players) is created and/or advanced by a few operations.  Like the
    Observer it asserts nothing: the monitored hand must not notice.  This
    reaches state shared between State instances (class-level containers,
    module-level memos keyed too coarsely)."""

    name = 'interleaver'

    def __init__(self, p=0.08):
        self.p = p

    def on_begin(self, ctx):
        self.rng = random.Random((ctx.cfg['seed'] << 3) ^ 0x17e4)
        self.active = self.rng.random() < 0.5
        self.other = None
        self.pol = None

    def on_decision(self, ctx, s, avail):
        if not self.active or self.rng.random() > self.p:
            return
        ctx.counters['interleave_points'] += 1
        key = load.SHUFFLE_KEY[0]
        try:
            with warnings.catch_warnings():
                warnings.simplefilter('ignore')
                self._advance(ctx)
        except Exception:     # noqa: BLE001  (the other table is no oracle)
            self.other = None
        finally:
            load.SHUFFLE_KEY[0] = key

    def _advance(self, ctx):
        rng = self.rng
        if self.other is None or not self.other.status:
            cfg = gen.gen_config(
                rng, customs=('kuhn', 'draw5', 'stud5', 'greek', 'plo8',
                              'badugi1', 'random'), p_custom=0.3,
                max_boards=2, auto_styles=('any', 'all', 'none'))
            load.set_shuffle_key(cfg['seed'])
            self.other = gen.build_state(cfg)
            self.pol = gen_policy(rng)
            ctx.counters['interleaved_states_created'] += 1
        o = self.other
        for _ in range(rng.randint(1, 8)):
            av = available(o)
            if not av:
                break
            name, args = choose(o, av, rng, self.pol)
            getattr(o, name)(*args)
            ctx.counters['interleaved_operations'] += 1


class FinalShowdownRule(Monitor):
    """Trace rule of the showdown: once the last card of the hand has been
    dealt, every player who is still in with a card face down is asked to
    show or muck (he may answer by keeping cards down -- that is his
    choice; not being asked is not).  Guards the path "tabled part of the
    hand at an all-in showdown, never asked again after the run-out"."""

    name = 'final-showdown-rule'

    def on_begin(self, ctx):
        self.k = 0
        self.last_deal = -1
        self.last_show = {}
        self.judged = False

    def on_op(self, ctx, s, op):
        self.k += 1
        kind = type(op).__name__
        if kind in ('HoleDealing', 'BoardDealing', 'CardBurning',
                    'StandingPatOrDiscarding'):
            self.last_deal = self.k
        elif kind == 'HoleCardsShowingOrMucking':
            self.last_show[op.player_index] = self.k
        elif kind in ('HandKilling', 'ChipsPushing') and not self.judged:
            self.judged = True
            live = [i for i in s.player_indices if s.statuses[i]]
            if len(live) < 2 or s.street_index is None:
                return
            ctx.counters['final_showdowns_judged'] += 1
            for i in live:
                down = [c for c, u in zip(s.hole_cards[i],
                                          s.hole_card_statuses[i]) if not u]
                if down and self.last_show.get(i, -1) < self.last_deal:
                    ctx.violate(
                        f'player {i} is still in with cards face down '
                        f'({s.hole_cards[i]} / {s.hole_card_statuses[i]}) '
                        f'but was not asked to show or muck after the last '
                        f'card was dealt (his last show/muck was operation '
                        f'#{self.last_show.get(i)}, the last deal '
                        f'#{self.last_deal})')


class DiscardProbe(Monitor):
    """At every draw decision the query is probed with discards a player
    cannot make: a card he holds once named twice, more unknown cards than
    he holds, other players' cards, an undealt card.  An accepted one is
    then attempted on a deepcopy: if the query says yes the operation must
    go through."""

    name = 'discard-probe'

    def on_decision(self, ctx, s, avail):
        if 'stand_pat_or_discard' not in avail:
            return
        from copy import deepcopy
        i = s.stander_pat_or_discarder_index
        held = list(s.hole_cards[i])
        ctx.counters['discard_probes'] += 1
        probes = []
        known = [c for c in held if c]
        if known and held.count(known[0]) == 1:
            probes.append(('a held card named twice',
                           (known[0], known[0])))
        nunk = sum(1 for c in held if not c)
        probes.append(('more unknown cards than held', '??' * (nunk + 1)))
        other = [c for j in s.player_indices if j != i and s.statuses[j]
                 for c in s.hole_cards[j] if c and c not in held][:1]
        other += [c for c in s.deck_cards if c not in held][:1]
        for c in other:
            probes.append(('a card he does not hold', (c,)))
        for what, arg in probes:
            try:
                ok = s.can_stand_pat_or_discard(arg)
            except Exception as exc:      # noqa: BLE001
                ctx.violate(f'can_stand_pat_or_discard({arg!r}) raised '
                            f'{type(exc).__name__}: {exc}')
                return
            if ok:
                t = deepcopy(s)
                try:
                    t.stand_pat_or_discard(arg)
                    ctx.violate(f'player {i} (hand {held}) may discard '
                                f'{what}: {arg!r}')
                except Exception as exc:   # noqa: BLE001
                    ctx.violate(
                        f'player {i} (hand {held}): the query accepts '
                        f'discarding {what} ({arg!r}) but the operation '
                        f'raises {type(exc).__name__}: {exc}')
                return


class KnownCardsRule(Monitor):
    """Trace rule on the players' hands: a card a player holds and whose
    identity is known stays in his hand, known, until he discards it in a
    draw, mucks, folds or is killed.  (Showing part of a hand at one of the
    several showdowns of an all-in run-out must not turn a card shown
    earlier back into an unknown one -- and so free it to be dealt again;
    at the FINAL showdown the cards not tabled are given up, by design.)"""

    name = 'known-cards'

    def on_begin(self, ctx):
        self.prev = None

    def _known(self, s):
        return [[repr(c) for c in s.hole_cards[i] if c]
                if s.statuses[i] else None for i in s.player_indices]

    def _last(self, s):
        return s.street_index is None or \
            s.street_index == len(s.streets) - 1

    def on_created(self, ctx, s):
        self.prev = self._known(s)
        self.was_last = self._last(s)

    def on_op(self, ctx, s, operation):
        now = self._known(s)
        prev, self.prev = self.prev, now
        was_last, self.was_last = self.was_last, self._last(s)
        if prev is None or len(prev) != len(now):
            return
        gone_ok = set()
        kind = type(operation).__name__
        if kind == 'StandingPatOrDiscarding':
            gone_ok = {repr(c) for c in operation.cards}
        elif kind == 'HoleCardsShowingOrMucking' and was_last:
            # at the final showdown (and after the hand) the cards a player
            # does not table are given up: documented behaviour
            return
        for i, (a, b) in enumerate(zip(prev, now)):
            if a is None or b is None:
                continue
            ctx.counters['known_hands_followed'] += 1
            left = list(b)
            for c in a:
                if c in left:
                    left.remove(c)
                elif c not in gone_ok:
                    ctx.violate(
                        f'op #{ctx.nevents} {type(operation).__name__}: '
                        f'player {i} held the known card {c} (hand {a}) and '
                        f'is still in, but his hand is now '
                        f'{[repr(x) for x in s.hole_cards[i]]}: a known '
                        f'card left a live hand without a discard or muck')
                    return


class BoardGrowthRule(Monitor):
    """Trace rule on the boards: a card dealt onto a board stays on that
    board, in place -- every board only ever grows at its end (until the
    number of boards changes when run-outs are agreed).  Looked at after
    every operation, so also while one run-out is on the table and the next
    is not yet dealt."""

    name = 'board-growth'

    def on_begin(self, ctx):
        self.boards = None

    def _view(self, s):
        return [tuple(map(repr, s.get_board_cards(b)))
                for b in s.board_indices]

    def on_created(self, ctx, s):
        self.boards = self._view(s)

    def on_op(self, ctx, s, operation):
        try:
            now = self._view(s)
        except Exception as exc:    # noqa: BLE001
            ctx.violate(f'op #{ctx.nevents}: get_board_cards raised '
                        f'{type(exc).__name__}: {exc}')
            return
        prev, self.boards = self.boards, now
        if prev is None or len(prev) != len(now):
            return
        ctx.counters['board_views_followed'] += 1
        for b, (x, y) in enumerate(zip(prev, now)):
            if y[:len(x)] != x:
                ctx.violate(
                    f'op #{ctx.nevents} {type(operation).__name__}: '
                    f'get_board_cards({b}) was {x} and is now {y} '
                    f'({s.board_count} boards, board_cards {s.board_cards}):'
                    f' a card seen on a board left it or moved')
                return
