"""JSON encoding of chip values, cards and configurations (replay files)."""
from __future__ import annotations

from decimal import Decimal
from fractions import Fraction
import json
import math


def enc(v):
    """Encode a python value into JSON-compatible data (type-tagged)."""
    if v is None or isinstance(v, (bool, str)):
        return v
    if isinstance(v, int):
        return v
    if isinstance(v, Fraction):
        return {'F': f'{v.numerator}/{v.denominator}'}
    if isinstance(v, Decimal):
        return {'D': str(v)}
    if isinstance(v, float):
        if math.isinf(v):
            return {'f': 'inf'}
        return {'f': v.hex()}
    if isinstance(v, dict):
        return {'M': [[enc(k), enc(x)] for k, x in v.items()]}
    if isinstance(v, (list, tuple)):
        return [enc(x) for x in v]
    if hasattr(v, 'rank') and hasattr(v, 'suit'):
        return {'C': repr(v)}
    raise TypeError(f'cannot encode {v!r} ({type(v)})')


def dec(v):
    if isinstance(v, list):
        return [dec(x) for x in v]
    if isinstance(v, dict):
        if 'F' in v:
            return Fraction(v['F'])
        if 'D' in v:
            return Decimal(v['D'])
        if 'f' in v:
            return math.inf if v['f'] == 'inf' else float.fromhex(v['f'])
        if 'M' in v:
            return {dec(k): dec(x) for k, x in v['M']}
        if 'C' in v:
            from pokerkit import Card
            return next(Card.parse(v['C']))
        raise ValueError(v)
    return v


def dumps(obj) -> str:
    return json.dumps(obj, sort_keys=True, default=_default)


def _default(o):
    try:
        return enc(o)
    except TypeError:
        return repr(o)


def show(v) -> str:
    """Short human-readable form for evidence samples."""
    if isinstance(v, (list, tuple)):
        return '[' + ','.join(show(x) for x in v) + ']'
    if isinstance(v, dict):
        return '{' + ','.join(f'{show(k)}:{show(x)}' for k, x in v.items()) + '}'
    return str(v)
