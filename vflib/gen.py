"""Seeded generator of configurations and builder of states (DESIGN 1.3).

A configuration is a plain dict (JSON-encodable through vflib.codec):

  kind      'game' (one of the 12 predefined classes, built through games.py)
            or 'custom' (State(...) with a user-defined street list)
  game      class name                         (kind == 'game')
  gargs     positional args of the class after automations: ante_trimming,
            raw_antes, raw_blinds_or_straddles | bring_in, bets...
  custom    {deck, hand_types, streets, structure, trimming, antes, blinds,
             bring_in}                          (kind == 'custom')
  autos     list of Automation names
  mode      'TOURNAMENT' | 'CASH_GAME'
  boards    starting board count
  stacks    raw starting stacks (list)
  n         player count
  rake      None | ['pct', percentage, cap, no_flop_no_drop] | ['chip', k]
  divmod    None | ['chunk', k]
  seed      shuffle key
  strict    True: warnings are errors
"""
from __future__ import annotations

from decimal import Decimal
from fractions import Fraction
from functools import partial
import math
import random

from vflib import load  # noqa: F401  (path + hooks)
import pokerkit
from pokerkit import (
    Automation, BettingStructure, Deck, Mode, Opening, State, Street,
)
from pokerkit import games as pk_games
from pokerkit import hands as pk_hands
from pokerkit.utilities import rake as pk_rake

ALL_AUTOS = tuple(a.name for a in Automation)

BUTTON_GAMES_MINBET = (
    'NoLimitTexasHoldem', 'NoLimitRoyalHoldem', 'NoLimitShortDeckHoldem',
    'PotLimitOmahaHoldem', 'NoLimitDeuceToSevenLowballSingleDraw',
)
BUTTON_GAMES_TWOBETS = (
    'FixedLimitTexasHoldem', 'FixedLimitOmahaHoldemHighLowSplitEightOrBetter',
    'FixedLimitDeuceToSevenLowballTripleDraw', 'FixedLimitBadugi',
)
STUD_GAMES = (
    'FixedLimitSevenCardStud',
    'FixedLimitSevenCardStudHighLowSplitEightOrBetter',
    'FixedLimitRazz',
)
ALL_GAMES = BUTTON_GAMES_MINBET + BUTTON_GAMES_TWOBETS + STUD_GAMES
BOARD_GAMES = (
    'NoLimitTexasHoldem', 'NoLimitRoyalHoldem', 'NoLimitShortDeckHoldem',
    'PotLimitOmahaHoldem', 'FixedLimitTexasHoldem',
    'FixedLimitOmahaHoldemHighLowSplitEightOrBetter',
)
DRAW_GAMES = (
    'NoLimitDeuceToSevenLowballSingleDraw',
    'FixedLimitDeuceToSevenLowballTripleDraw', 'FixedLimitBadugi',
)
HILO_GAMES = (
    'FixedLimitOmahaHoldemHighLowSplitEightOrBetter',
    'FixedLimitSevenCardStudHighLowSplitEightOrBetter',
)

# max players by game with one board / one run-out (deck large enough)
MAX_PLAYERS = {
    'NoLimitTexasHoldem': 9, 'NoLimitRoyalHoldem': 6,
    'NoLimitShortDeckHoldem': 9, 'PotLimitOmahaHoldem': 9,
    'NoLimitDeuceToSevenLowballSingleDraw': 6, 'FixedLimitTexasHoldem': 9,
    'FixedLimitOmahaHoldemHighLowSplitEightOrBetter': 9,
    'FixedLimitDeuceToSevenLowballTripleDraw': 6, 'FixedLimitBadugi': 8,
    'FixedLimitSevenCardStud': 8,
    'FixedLimitSevenCardStudHighLowSplitEightOrBetter': 8,
    'FixedLimitRazz': 8,
}
HOLE_COUNT = {
    'NoLimitTexasHoldem': 2, 'NoLimitRoyalHoldem': 2,
    'NoLimitShortDeckHoldem': 2, 'PotLimitOmahaHoldem': 4,
    'FixedLimitTexasHoldem': 2,
    'FixedLimitOmahaHoldemHighLowSplitEightOrBetter': 4,
}
DECK_SIZE = {
    'NoLimitRoyalHoldem': 20, 'NoLimitShortDeckHoldem': 36,
}


# --------------------------------------------------------------------------
# custom (user-defined) street lists

def _st(burn, holes, board, draw, opening, mn, cap):
    return [bool(burn), [bool(x) for x in holes], int(board), bool(draw),
            opening, mn, cap]


def custom_templates(rng, mn, structure):
    """Return dict name -> custom spec pieces (without chips)."""
    cap = 4 if structure == 'FIXED_LIMIT' else rng.choice(
        [None, None, 1, 2, 3, 0])      # 0: a check-only street
    P = 'POSITION'
    t = {}
    t['kuhn'] = dict(
        deck='KUHN_POKER', hand_types=['KuhnPokerHand'],
        streets=[_st(0, [0], 0, 0, P, mn, 1)], maxn=3, stud=False)
    t['draw5'] = dict(
        deck='STANDARD', hand_types=['StandardHighHand'],
        streets=[_st(0, [0] * 5, 0, 0, P, mn, cap),
                 _st(1, [], 0, 1, P, mn, cap)], maxn=6, stud=False)
    t['stud5'] = dict(
        deck='STANDARD', hand_types=['StandardHighHand'],
        streets=[_st(0, [0, 1], 0, 0, 'LOW_CARD', mn, cap),
                 _st(1, [1], 0, 0, 'HIGH_HAND', mn, cap),
                 _st(1, [1], 0, 0, 'HIGH_HAND', 2 * mn, cap),
                 _st(1, [1], 0, 0, 'HIGH_HAND', 2 * mn, cap)],
        maxn=9, stud=True)
    k = rng.choice([1, 1, 2])
    t['openstud'] = dict(    # every street equal to the first: k up cards
        deck='STANDARD', hand_types=['StandardHighHand'],
        streets=[_st(0, [1] * k, 0, 0, 'LOW_CARD', mn, cap)
                 for _ in range(5 if k == 1 else 3)],
        maxn=8 if k == 1 else 6, stud=True)
    t['studdraw2'] = dict(  # exposed cards can be discarded and redrawn
        deck='STANDARD', hand_types=['StandardHighHand'],
        streets=[_st(0, [0, 1, 1], 0, 0, 'LOW_CARD', mn, cap),
                 _st(1, [], 0, 1, 'HIGH_HAND', mn, cap),
                 _st(1, [1], 0, 0, 'HIGH_HAND', 2 * mn, cap),
                 _st(0, [], 0, 1, 'HIGH_HAND', 2 * mn, cap)],
        maxn=6, stud=True)
    t['boarddraw'] = dict(  # community cards first, then draws
        deck='STANDARD', hand_types=['StandardHighHand'],
        streets=[_st(0, [0] * 3, 0, 0, P, mn, cap),
                 _st(1, [], 5, 0, P, mn, cap),
                 _st(1, [], 0, 1, P, 2 * mn, cap),
                 _st(0, [], 0, 1, P, 2 * mn, cap)], maxn=6, stud=False)
    t['studboard'] = dict(  # stud whose last street also deals a board card
        deck='STANDARD', hand_types=['StandardHighHand'],
        streets=[_st(0, [0, 0, 1], 0, 0, 'LOW_CARD', mn, cap),
                 _st(1, [1], 0, 0, 'HIGH_HAND', mn, cap),
                 _st(1, [1], 0, 0, 'HIGH_HAND', 2 * mn, cap),
                 _st(1, [1], 0, 0, 'HIGH_HAND', 2 * mn, cap),
                 _st(1, [0], 1, 0, 'HIGH_HAND', 2 * mn, cap)],
        maxn=9, stud=True)
    t['drawboard'] = dict(  # a draw street that also deals board cards
        deck='STANDARD', hand_types=['StandardHighHand'],
        streets=[_st(0, [0] * 3, 0, 0, P, mn, cap),
                 _st(0, [], 2, 1, P, mn, cap),
                 _st(1, [], 1, 1, P, 2 * mn, cap)], maxn=6, stud=False)
    t['holeboard'] = dict(  # later streets that burn, deal a hole card AND board cards
        deck='STANDARD', hand_types=['StandardHighHand'],
        streets=[_st(0, [0, 0], 0, 0, P, mn, cap),
                 _st(1, [0], 2, 0, P, mn, cap),
                 _st(1, [1], 1, 0, P, 2 * mn, cap)], maxn=7, stud=False)
    t['greek'] = dict(
        deck='STANDARD', hand_types=['GreekHoldemHand'],
        streets=[_st(0, [0, 0], 0, 0, P, mn, cap),
                 _st(1, [], 3, 0, P, mn, cap),
                 _st(1, [], 1, 0, P, mn, cap),
                 _st(1, [], 1, 0, P, mn, cap)], maxn=9, stud=False)
    t['courchevel'] = dict(
        deck='STANDARD', hand_types=['OmahaHoldemHand'],
        streets=[_st(0, [0] * 5, 1, 0, P, mn, cap),
                 _st(1, [], 2, 0, P, mn, cap),
                 _st(1, [], 1, 0, P, mn, cap),
                 _st(1, [], 1, 0, P, mn, cap)], maxn=7, stud=False)
    t['holdem8'] = dict(
        deck='STANDARD',
        hand_types=['StandardHighHand', 'EightOrBetterLowHand'],
        streets=[_st(0, [0, 0], 0, 0, P, mn, cap),
                 _st(1, [], 3, 0, P, mn, cap),
                 _st(1, [], 1, 0, P, mn, cap),
                 _st(1, [], 1, 0, P, mn, cap)], maxn=9, stud=False)
    t['plo8'] = dict(
        deck='STANDARD',
        hand_types=['OmahaHoldemHand', 'OmahaEightOrBetterLowHand'],
        streets=[_st(0, [0] * 4, 0, 0, P, mn, cap),
                 _st(1, [], 3, 0, P, mn, cap),
                 _st(1, [], 1, 0, P, mn, cap),
                 _st(1, [], 1, 0, P, mn, cap)], maxn=8, stud=False)
    t['badugi1'] = dict(
        deck='STANDARD', hand_types=['StandardBadugiHand'],
        streets=[_st(0, [0] * 4, 0, 0, P, mn, cap),
                 _st(1, [], 0, 1, P, mn, cap)], maxn=8, stud=False)
    t['razzdraw'] = dict(   # ace-to-five single draw
        deck='REGULAR', hand_types=['RegularLowHand'],
        streets=[_st(0, [0] * 5, 0, 0, P, mn, cap),
                 _st(1, [], 0, 1, P, 2 * mn, cap)], maxn=6, stud=False)
    t['studdraw'] = dict(   # mixed up/down cards followed by a draw
        deck='STANDARD', hand_types=['StandardHighHand'],
        streets=[_st(0, [0, 1, 0, 1, 0], 0, 0, P, mn, cap),
                 _st(1, [], 0, 1, P, mn, cap),
                 _st(0, [], 0, 1, P, 2 * mn, cap)], maxn=6, stud=False)
    # random street tuple: first street holes, then a mix of board/hole/draw
    holes = rng.randint(2, 4)
    streets = [_st(0, [rng.random() < 0.3 for _ in range(holes)], 0, 0, P,
                   mn, cap)]
    board_total = 0
    hole_total = holes
    for _ in range(rng.randint(1, 3)):
        k = rng.random()
        if k < 0.55:
            b = rng.randint(1, 3)
            board_total += b
            streets.append(_st(rng.random() < 0.7, [], b, 0, P, mn, cap))
        elif k < 0.8:
            streets.append(_st(rng.random() < 0.7, [rng.random() < 0.5], 0, 0,
                               P, mn, cap))
            hole_total += 1
        else:
            streets.append(_st(rng.random() < 0.7, [], 0, 1, P, mn, cap))
    while hole_total + board_total < 5:
        b = min(3, 5 - hole_total - board_total)
        board_total += b
        streets.append(_st(1, [], b, 0, P, mn, cap))
    t['random'] = dict(
        deck='STANDARD', hand_types=['StandardHighHand'], streets=streets,
        maxn=6, stud=False)
    return t


def build_street(s):
    burn, holes, board, draw, opening, mn, cap = s
    return Street(burn, tuple(holes), board, draw, Opening[opening], mn, cap)


# --------------------------------------------------------------------------
# chips

def _scale(rng, chip_type):
    if chip_type == 'int':
        return rng.choice([1, 1, 1, 2, 5, 25])
    if chip_type == 'Fraction':
        return rng.choice([Fraction(1, 2), Fraction(1, 3), Fraction(5, 7)])
    if chip_type == 'float':
        return rng.choice([0.5, 0.25, 1.0, 2.5])
    if chip_type == 'Decimal':
        return rng.choice([Decimal('0.5'), Decimal('0.25'), Decimal('1'),
                           Decimal('0.05')])
    raise ValueError(chip_type)


def gen_stacks(rng, n, unit, bb):
    """Hostile stack vectors, expressed in multiples of `unit`."""
    k = rng.random()
    if k < 0.25:
        v = [rng.randint(1, 4 * bb) for _ in range(n)]
    elif k < 0.45:
        v = [rng.randint(1, 40 * bb) for _ in range(n)]
    elif k < 0.55:
        v = [rng.randint(2, 12) * bb] * n
    elif k < 0.65:
        v = [1] * n
        v[rng.randrange(n)] = rng.randint(1, 10 * bb)
    elif k < 0.8:
        v = [rng.choice([bb, bb + 1, 2 * bb, 2 * bb - 1, 3 * bb, 5 * bb,
                         max(1, bb // 2)]) for _ in range(n)]
    elif k < 0.88:
        # a ladder: stacks a fraction of a raise apart, so successive
        # all-ins are short (incomplete) raises over one another; one or
        # two deep stacks keep the betting open behind them
        base = rng.randint(1, 6) * bb
        step = rng.randint(1, max(1, bb))
        v = [base + i * step for i in range(n)]
        rng.shuffle(v)
        for i in rng.sample(range(n), min(n, rng.choice([1, 2]))):
            v[i] = rng.randint(20, 100) * bb
    else:
        v = [rng.randint(10, 200) * bb for _ in range(n)]
    return [x * unit for x in v]


def gen_antes(rng, n, unit, bb, form_ok=True):
    k = rng.random()
    if k < 0.4:
        return 0
    if k < 0.6:
        return rng.randint(1, max(1, bb)) * unit
    if k < 0.7:
        return {1: rng.randint(1, 2 * bb) * unit}        # big-blind ante
    if k < 0.8:
        return {-1: rng.randint(1, 2 * bb) * unit}       # button ante
    v = [rng.choice([0, 0, 1, 2, bb]) * unit for _ in range(n)]
    if rng.random() < 0.5:
        return tuple(v)
    return v


def gen_blinds(rng, n, unit, bb):
    sb = max(1, bb // 2)
    k = rng.random()
    if k < 0.45:
        v = [sb, bb]
    elif k < 0.55:
        v = [bb, bb]
    elif k < 0.62:
        v = [0, bb]
    elif k < 0.75 and n >= 3:
        v = [sb, bb, 2 * bb]
        if n >= 4 and rng.random() < 0.4:
            v.append(4 * bb)
    elif k < 0.85 and n >= 4:
        v = [sb, bb] + [0] * (n - 2)
        v[rng.randrange(2, n)] = -bb                       # late post
    elif k < 0.87 and n >= 4:
        # a post that is bigger than every blind
        v = [sb, bb] + [0] * (n - 2)
        v[rng.randrange(2, n)] = -rng.choice([2 * bb, 3 * bb, bb + 1])
    elif k < 0.89 and n >= 4:
        v = [sb, bb, -bb, 2 * bb]          # a post seated below a straddle
        if n >= 5 and rng.random() < 0.5:
            v = [sb, -sb, bb, 0, 2 * bb]
    elif k < 0.92:
        return {-1: bb * unit}                            # button blind
    else:
        v = [sb, bb]
        if n >= 3 and rng.random() < 0.5:
            v += [0] * (n - 2)
            v[-1] = -rng.choice([sb, bb])
    v = [x * unit for x in v]
    form = rng.random()
    if form < 0.6:
        return tuple(v)
    if form < 0.8:
        return list(v)
    return {i: x for i, x in enumerate(v) if x}


def gen_rake(rng, chip_type):
    k = rng.random()
    if k < 0.7:
        return None
    if chip_type != 'int':
        return ['pct', rng.choice([0.0, 0.5, 0.25]), 'inf', rng.random() < 0.3] \
            if chip_type == 'float' else None
    if k < 0.85:
        return ['pct', rng.choice([0.05, 0.1, 0.025, 0.5, 1.0]),
                rng.choice(['inf', 1, 3, 10]), rng.random() < 0.4]
    if k < 0.93:
        return ['chip', rng.choice([1, 2])]
    return ['drop', rng.choice([1, 3])]      # flat drop: may take a whole pot


def make_rake(spec):
    if spec is None:
        return pk_rake
    if spec[0] == 'pct':
        cap = math.inf if spec[2] == 'inf' else spec[2]
        return partial(pk_rake, percentage=spec[1], cap=cap,
                       no_flop_no_drop=spec[3])
    if spec[0] == 'chip':
        k = spec[1]

        def chip_rake(amount, state=None):
            r = k if amount >= 5 * k else 0
            return r, amount - r
        return chip_rake
    if spec[0] == 'drop':
        k = spec[1]

        def drop_rake(amount, state=None):
            r = min(amount, k)
            return r, amount - r
        return drop_rake
    raise ValueError(spec)


def make_divmod(spec):
    from pokerkit.utilities import divmod as pk_divmod
    if spec is None:
        return pk_divmod
    if spec[0] == 'chunk':
        k = spec[1]

        def chunk_divmod(a, d):
            q = (a // d) // k * k
            return q, a - q * d
        return chunk_divmod
    raise ValueError(spec)


# --------------------------------------------------------------------------

def gen_autos(rng, style):
    """style: 'any' uniform subset; 'none'; 'all'; 'typical'; 'single-off'."""
    if style == 'none':
        return []
    if style == 'all':
        return list(ALL_AUTOS)
    if style == 'typical':
        return [a for a in ALL_AUTOS
                if a not in ('HOLE_DEALING', 'BOARD_DEALING')]
    if style == 'single-off':
        off = rng.choice(ALL_AUTOS)
        return [a for a in ALL_AUTOS if a != off]
    if style == 'single-on':
        return [rng.choice(ALL_AUTOS)]
    p = rng.choice([0.2, 0.5, 0.8])
    return [a for a in ALL_AUTOS if rng.random() < p]


def gen_config(rng, *, games=ALL_GAMES, customs=(), p_custom=0.25,
               chip_types=('int',), modes=('TOURNAMENT', 'CASH_GAME'),
               auto_styles=('any',), max_boards=1, rake_ok=False,
               divmod_ok=False, strict_p=1.0, min_n=2, max_n=9,
               hostile_chips=True, odd_bets_p=0.0):
    chip_type = rng.choice(chip_types)
    unit = _scale(rng, chip_type)
    bb = rng.choice([2, 2, 2, 4, 10])
    cfg = {'chip_type': chip_type}
    use_custom = customs and rng.random() < p_custom
    if use_custom:
        structure = rng.choice(['FIXED_LIMIT', 'POT_LIMIT', 'NO_LIMIT'])
        name = rng.choice(customs)
        t = custom_templates(rng, bb * unit, structure)[name]
        maxn = t['maxn']
        stud = t['stud']
        cfg['kind'] = 'custom'
        cfg['template'] = name
    else:
        name = rng.choice(games)
        maxn = MAX_PLAYERS[name]
        stud = name in STUD_GAMES
        cfg['kind'] = 'game'
        cfg['game'] = name
    boards = 1
    if max_boards > 1 and not stud and rng.random() < 0.5 and (
            use_custom and t['streets'] and any(s[2] for s in t['streets'])
            or not use_custom and name in BOARD_GAMES):
        boards = rng.randint(2, max_boards)
    # keep the deck large enough: holes*n + 5*boards*3(run-outs) <= deck
    if not use_custom and name in BOARD_GAMES:
        deck = DECK_SIZE.get(name, 52)
        room = deck - 5 * boards * (1 if name == 'NoLimitRoyalHoldem' else 2)
        maxn = max(2, min(maxn, room // HOLE_COUNT[name]))
    if use_custom and boards > 1:
        maxn = min(maxn, 5)
    n = rng.randint(min_n, max(min_n, min(maxn, max_n)))
    if rng.random() < 0.35:
        n = min(n, 3)
    trimming = rng.random() < 0.5
    stacks = gen_stacks(rng, n, unit, bb) if hostile_chips else \
        [rng.randint(20, 100) * bb * unit for _ in range(n)]
    if stud:
        antes = gen_antes(rng, n, unit, bb)
        if isinstance(antes, dict):
            antes = rng.choice([0, unit])
        bring_in = rng.choice([1, 1, max(1, bb // 2)]) * unit
        if bring_in >= bb * unit:
            bring_in = unit if unit < bb * unit else unit / 2
        if rng.random() < 0.1 and (antes if not isinstance(antes, (list, tuple)) else any(antes)):
            bring_in = 0 * unit
        blinds = 0
    else:
        antes = gen_antes(rng, n, unit, bb)
        blinds = gen_blinds(rng, n, unit, bb)
        bring_in = 0
    if use_custom:
        cfg['custom'] = dict(
            deck=t['deck'], hand_types=t['hand_types'], streets=t['streets'],
            structure=structure, trimming=trimming, antes=antes,
            blinds=blinds, bring_in=bring_in)
    elif name in BUTTON_GAMES_MINBET:
        cfg['gargs'] = [trimming, antes, blinds, bb * unit]
    elif name in BUTTON_GAMES_TWOBETS:
        cfg['gargs'] = [trimming, antes, blinds, bb * unit, 2 * bb * unit]
    else:
        cfg['gargs'] = [trimming, antes, bring_in, bb * unit, 2 * bb * unit]
    if odd_bets_p and not use_custom and rng.random() < odd_bets_p:
        # unusual but legal parameter choices: small bet == big bet, a big
        # bet three times the small one, a minimum bet that is not the blind
        if name in BUTTON_GAMES_MINBET:
            cfg['gargs'][3] = rng.choice([1, 2, 3, bb // 2 or 1]) * unit
        else:
            k = rng.choice([1, 1, 3])
            cfg['gargs'][4] = cfg['gargs'][3] * k
    cfg['autos'] = gen_autos(rng, rng.choice(auto_styles))
    cfg['mode'] = rng.choice(modes)
    cfg['boards'] = boards
    cfg['stacks'] = stacks if rng.random() < 0.8 else tuple(stacks)
    cfg['n'] = n
    cfg['rake'] = gen_rake(rng, chip_type) if rake_ok else None
    cfg['divmod'] = (['chunk', rng.choice([2, 5])]
                     if divmod_ok and chip_type == 'int' and rng.random() < 0.15
                     else None)
    cfg['seed'] = rng.getrandbits(48)
    cfg['strict'] = rng.random() < strict_p
    cfg['unit'] = unit
    cfg['bb'] = bb
    return cfg


def autos_of(cfg):
    return tuple(Automation[a] for a in cfg['autos'])


CALL_RECORDER = [None]    # f(kind, args, result) or None


def _recorded(kind, fn):
    def wrapper(*args):
        result = fn(*args)
        rec = CALL_RECORDER[0]
        if rec is not None:
            rec(kind, args, result)
        return result
    return wrapper


def mode_of(cfg):
    """Mode member, or (cfg['mode_as_str']) the plain string value, which
    the StrEnum documents as equivalent."""
    m = Mode[cfg['mode']]
    return str(m.value) if cfg.get('mode_as_str') else m


def build_game(cfg, autos=None):
    """Poker game object for kind == 'game' configurations."""
    cls = getattr(pk_games, cfg['game'])
    autos = autos_of(cfg) if autos is None else autos
    return cls(
        autos, *cfg['gargs'], mode=mode_of(cfg),
        starting_board_count=cfg['boards'],
        divmod=_recorded('divmod', make_divmod(cfg['divmod'])),
        rake=_recorded('rake', make_rake(cfg['rake'])),
    )


def build_state(cfg, autos=None):
    """Create the State described by cfg (the shuffle key must be set)."""
    autos = autos_of(cfg) if autos is None else autos
    if cfg['kind'] == 'game':
        return build_game(cfg, autos)(cfg['stacks'], cfg['n'])
    c = cfg['custom']
    return State(
        autos,
        Deck[c['deck']],
        tuple(getattr(pk_hands, h) for h in c['hand_types']),
        tuple(build_street(s) for s in c['streets']),
        BettingStructure[c['structure']],
        c['trimming'],
        c['antes'],
        c['blinds'],
        c['bring_in'],
        cfg['stacks'],
        cfg['n'],
        mode=mode_of(cfg),
        starting_board_count=cfg['boards'],
        divmod=_recorded('divmod', make_divmod(cfg['divmod'])),
        rake=_recorded('rake', make_rake(cfg['rake'])),
    )


def describe(cfg) -> str:
    """One-line description for evidence samples."""
    from vflib.codec import show
    if cfg['kind'] == 'game':
        head = f"{cfg['game']}{show(cfg['gargs'])}"
    else:
        c = cfg['custom']
        head = (f"custom:{cfg.get('template')}[{c['structure']},"
                f"antes={show(c['antes'])},blinds={show(c['blinds'])},"
                f"bring_in={c['bring_in']},trim={c['trimming']}]")
    return (f"{head} n={cfg['n']} stacks={show(cfg['stacks'])} "
            f"mode={cfg['mode']} boards={cfg['boards']} "
            f"autos={len(cfg['autos'])}/11 rake={cfg['rake']} "
            f"strict={cfg['strict']}")
