"""vflib -- runtime-monitoring harness for uoftcprg/pokerkit (see /verif/DESIGN.md)."""
