"""Bounded-exhaustive exploration of small games under the monitors.

Random histories sample the space of player decisions; for SMALL games the
space can be walked completely.  A root is a configuration (2-3 players,
stacks of a few chips, every non-decision step automated, deterministic
keyed deck).  The explorer walks the tree of ALL player decisions depth
first: a node is a script (list of client calls); it is executed from
scratch under the property's monitors with driver.replay_script (so every
monitor sees the whole path, decision by decision), and its children are
every available operation with every argument of a finite candidate set
(every integer amount of the raise interval when it is small).  Nothing is
deduplicated: two paths reaching equal states are both walked, because the
reference models carry history of their own.

The tree of a root is either walked completely (counted in
`trees_completed`) or cut at the node budget (`trees_cut`).
"""
from __future__ import annotations

import random
import time

from vflib import gen, driver, hist
from vflib.driver import encode_args
from vflib.run import sig

AUTOS_DECISIONS_ONLY = [a for a in gen.ALL_AUTOS]
AUTOS_MANUAL_SHOW = [a for a in gen.ALL_AUTOS
                     if a != 'HOLE_CARDS_SHOWING_OR_MUCKING']


def small_roots(rng):
    """Yield small configurations (dicts as produced by gen.gen_config)."""
    P = 'POSITION'
    while True:
        k = rng.random()
        n = rng.choice([2, 2, 3])
        unit = 1
        stacks = [rng.randint(1, 8) for _ in range(n)]
        if rng.random() < 0.3:
            stacks = [rng.choice([2, 3, 4])] * n
        mode = rng.choice(['TOURNAMENT', 'CASH_GAME'])
        autos = list(AUTOS_DECISIONS_ONLY if rng.random() < 0.7
                     else AUTOS_MANUAL_SHOW)
        cfg = {'chip_type': 'int', 'autos': autos, 'mode': mode,
               'boards': 1, 'stacks': stacks, 'n': n, 'rake': None,
               'divmod': None, 'seed': rng.getrandbits(48), 'strict': True,
               'unit': unit, 'bb': 2}
        antes = rng.choice([0, 0, 1, {-1: 1}])
        trim = rng.random() < 0.5
        if k < 0.22:
            cfg.update(kind='game', game='NoLimitTexasHoldem',
                       gargs=[trim, antes, rng.choice([(1, 2), (1, 2), (2, 2),
                                                       (0, 2)]), 2])
        elif k < 0.4:
            cfg.update(kind='game', game='FixedLimitTexasHoldem',
                       gargs=[trim, antes, (1, 2), 2, 4])
            cfg['stacks'] = [s + rng.randint(0, 6) for s in stacks]
        elif k < 0.55:
            cfg.update(kind='game', game='PotLimitOmahaHoldem',
                       gargs=[trim, antes, (1, 2), 2])
        elif k < 0.68:
            cfg.update(kind='custom', template='kuhn', custom=dict(
                deck='KUHN_POKER', hand_types=['KuhnPokerHand'],
                streets=[[False, [False], 0, False, P, 1, rng.choice(
                    [1, 2, None])]],
                structure=rng.choice(['FIXED_LIMIT', 'NO_LIMIT',
                                      'POT_LIMIT']),
                trimming=trim, antes=1, blinds=0 if n == 2 and rng.random()
                < 0.5 else (0, 1), bring_in=0))
            cfg['stacks'] = [rng.randint(1, 4) for _ in range(n)]
            if cfg['custom']['blinds'] == 0:
                cfg['custom']['blinds'] = (0, 1)
        elif k < 0.82:
            cfg.update(kind='game', game='FixedLimitRazz',
                       gargs=[trim, rng.choice([0, 1]), 1, 2, 4])
            cfg['stacks'] = [s + rng.randint(0, 5) for s in stacks]
        elif k < 0.92:
            cfg.update(kind='game',
                       game='NoLimitDeuceToSevenLowballSingleDraw',
                       gargs=[trim, antes, (1, 2), 2])
            cfg['n'] = 2
            cfg['stacks'] = stacks[:2]
        else:
            cfg.update(kind='custom', template='draw5', custom=dict(
                deck='STANDARD', hand_types=['StandardHighHand'],
                streets=[[False, [False] * 5, 0, False, P, 2, 2],
                         [True, [], 0, True, P, 2, 2]],
                structure='POT_LIMIT', trimming=trim, antes=antes,
                blinds=(1, 2), bring_in=0))
            cfg['n'] = 2
            cfg['stacks'] = stacks[:2]
        yield cfg


def candidates(state, avail):
    """Every (name, args) the explorer branches on at this state."""
    out = []
    s = state
    for op in avail:
        if op == 'complete_bet_or_raise_to':
            lo = s.min_completion_betting_or_raising_to_amount
            hi = s.max_completion_betting_or_raising_to_amount
            if isinstance(lo, int) and isinstance(hi, int):
                if hi - lo <= 5:
                    amounts = list(range(lo, hi + 1))
                else:
                    pot = s.pot_completion_betting_or_raising_to_amount
                    amounts = sorted({lo, lo + 1, (lo + hi) // 2, hi - 1, hi}
                                     | ({pot} if lo <= pot <= hi else set()))
            else:
                amounts = [lo, hi]
            for a in amounts:
                out.append((op, [a]))
        elif op == 'stand_pat_or_discard':
            i = s.stander_pat_or_discarder_index
            held = list(s.hole_cards[i])
            out.append((op, []))
            if held:
                out.append((op, [repr(held[0])]))
                out.append((op, [''.join(map(repr, held))]))
        elif op == 'show_or_muck_hole_cards':
            out.append((op, [True]))
            if s.can_show_or_muck_hole_cards(False):
                out.append((op, [False]))
        elif op == 'select_runout_count':
            out.append((op, [None]))
            out.append((op, [2]))
        else:
            out.append((op, []))
    return out


def explore_root(cfg, make_monitors, prop, node_budget, deadline, on_node):
    """Walk the decision tree of one root. Returns (nodes, leaves, complete,
    maxdepth).  on_node(ctx) is called for every executed node."""
    import warnings
    with warnings.catch_warnings():
        warnings.simplefilter('error' if cfg['strict'] else 'ignore')
        return _explore_root(cfg, make_monitors, prop, node_budget, deadline,
                             on_node)


def _explore_root(cfg, make_monitors, prop, node_budget, deadline, on_node):
    stack = [[]]
    nodes = leaves = maxdepth = 0
    complete = True
    while stack:
        if nodes >= node_budget or time.time() > deadline:
            complete = False
            break
        script = stack.pop()
        ctx = driver.replay_script(cfg, script, make_monitors(), prop)
        nodes += 1
        maxdepth = max(maxdepth, len(script))
        on_node(ctx)
        if ctx.violations:
            leaves += 1          # reported by on_node; not expanded further
            continue
        st = ctx.state
        if st is None or 'ctor_exc' in ctx.data or 'op_exc' in ctx.data:
            leaves += 1
            continue
        try:
            avail = driver.available(st)
        except Exception:    # noqa: BLE001  (reported through the monitors)
            leaves += 1
            continue
        if not avail or not st.status:
            leaves += 1
            continue
        for name, args in reversed(candidates(st, avail)):
            stack.append(script + [[name, encode_args(args)]])
    return nodes, leaves, complete, maxdepth


def run_exploration(res, prop, rng, make_monitors, budget_s, node_budget,
                    classify=None, nontrivial=None, roots=None,
                    cfg_hook=None):
    """Explore small roots until the time budget is used; fills `res`."""
    t_end = time.time() + budget_s
    it = small_roots(rng)
    nroots = 0
    while time.time() < t_end and (roots is None or nroots < roots):
        cfg = next(it)
        if cfg_hook is not None:
            cfg = cfg_hook(cfg, rng)
            if cfg is None:
                continue
        nroots += 1

        def on_node(ctx):
            res.counters['explored_nodes'] += 1
            res.counters.update(ctx.counters)
            if 'query_exc' in ctx.data and not ctx.violations:
                exc = ctx.data['query_exc']
                ctx.violate(f'a yes/no query raised {type(exc).__name__}: '
                            f'{exc} [{hist.exc_site(exc)}] after op '
                            f'#{ctx.nevents}')
            for v in ctx.violations:
                kf = classify(ctx, v) if classify else None
                res.violation(
                    f"[exhaustive small-game exploration] {v['what']} || "
                    f"{gen.describe(ctx.cfg)} || ops: "
                    f"{hist.compress_kinds(ctx.kinds)}",
                    {'cfg': hist.enc_cfg(ctx.cfg), 'script': ctx.script,
                     'pol': None}, kf=kf)
            if ctx.state is not None and (
                    nontrivial is None or nontrivial(ctx)):
                res.sigs.add(sig('x', hist.default_sig(ctx)))
        nodes, leaves, complete, depth = explore_root(
            cfg, make_monitors, prop, node_budget, t_end, on_node)
        res.counters['explored_roots'] += 1
        res.counters['explored_leaves'] += leaves
        res.counters['trees_completed' if complete else 'trees_cut'] += 1
        if complete and len(res.samples) < 3:
            res.add_sample({'exhaustive_tree': gen.describe(cfg),
                            'nodes': nodes, 'leaves': leaves,
                            'max_depth': depth}, limit=3)
    res.evaluations += res.counters['explored_nodes']
