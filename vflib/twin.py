"""Twin runs: re-apply an operation log to a second state and compare
(shared by C09, C12, C15)."""
from __future__ import annotations

import dataclasses

from vflib import load, gen, driver
from vflib.driver import opname, AUTO_OF
from pokerkit.state import State

SKIP_FIELDS = {'automations', 'divmod', 'rake', 'raw_antes',
               'raw_blinds_or_straddles', 'raw_starting_stacks'}
FIELD_NAMES = [f.name for f in dataclasses.fields(State)
               if f.name not in SKIP_FIELDS]

PUBLIC = (
    'stacks', 'bets', 'statuses', 'payoffs', 'hole_cards',
    'hole_card_statuses', 'board_cards', 'burn_cards', 'mucked_cards',
    'discarded_cards', 'deck_cards', 'street_index', 'status',
    'all_in_status', 'actor_index', 'showdown_index', 'turn_index',
    'stander_pat_or_discarder_index', 'board_count', 'runout_count',
)


def norm(v):
    """Hashable/comparable deep normal form of a field value."""
    if isinstance(v, (list, tuple)) or type(v).__name__ == 'deque':
        return tuple(norm(x) for x in v)
    if isinstance(v, set):
        return tuple(sorted(v))
    if dataclasses.is_dataclass(v) and not isinstance(v, type):
        return (type(v).__name__,) + tuple(
            norm(getattr(v, f.name)) for f in dataclasses.fields(v))
    return v


def full_fingerprint(state):
    """All dataclass fields (incl. private ones) except the callables."""
    return tuple((n, norm(getattr(state, n))) for n in FIELD_NAMES)


def public_snapshot(state):
    d = {}
    for n in PUBLIC:
        d[n] = norm(getattr(state, n))
    d['pots'] = tuple((p.raked_amount, p.unraked_amount, p.player_indices)
                      for p in state.pots)
    return d


def diff(a, b):
    """Names whose values differ between two snapshots / fingerprints."""
    if isinstance(a, dict):
        return [k for k in a if a[k] != b.get(k)]
    return [n for (n, x), (_, y) in zip(a, b) if x != y]


def call_for(op):
    """(method name, args) that reproduces a logged operation exactly."""
    k = type(op).__name__
    name = opname(op)
    if k in ('AntePosting', 'BlindOrStraddlePosting', 'HandKilling',
             'ChipsPulling'):
        return name, [op.player_index]
    if k in ('BetCollection', 'Folding', 'CheckingOrCalling',
             'BringInPosting', 'ChipsPushing'):
        return name, []
    if k == 'CardBurning':
        return name, [op.card]
    if k == 'HoleDealing':
        return name, [op.cards, op.player_index]
    if k == 'BoardDealing':
        return name, [op.cards]
    if k == 'StandingPatOrDiscarding':
        return name, [op.cards]
    if k == 'CompletionBettingOrRaisingTo':
        return name, [op.amount]
    if k == 'RunoutCountSelection':
        return name, [op.runout_count, op.player_index]
    if k == 'HoleCardsShowingOrMucking':
        if not op.hole_cards:
            return name, [False, op.player_index]
        return name, [op.hole_cards, op.player_index]
    if k == 'NoOperation':
        return 'no_operate', []
    raise ValueError(k)


def fresh_state(cfg, autos=()):
    load.set_shuffle_key(cfg['seed'])
    return gen.build_state(cfg, autos=tuple(autos))
