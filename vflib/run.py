"""Launcher, worker protocol, verdicts and evidence (DESIGN 1.5-1.8).

  ./vf check C01 [--tier quick|thorough] [--seed N]
  ./vf replay <path>
  ./vf worker C01 --seed N --shard i --of W --tier T --out file   (internal)

A property module (vflib.monitors.cXX) provides
  PROP, RULE, ASSUMPTIONS, CASES = {'quick': n, 'thorough': n},
  MIN_NONTRIVIAL = {'quick': n, 'thorough': n}, REQUIRED (counter names that
  must be > 0 or the run is inconclusive), TIME = {'quick': s, 'thorough': s}
  run_shard(seed, shard, of, tier, deadline) -> dict   (see Shard below)
  replay(payload) -> list of violation dicts
"""
from __future__ import annotations

import hashlib
import importlib
import json
import os
import subprocess
import sys
import time
from collections import Counter

ROOT = os.path.dirname(os.path.dirname(os.path.abspath(__file__)))
WORK = os.path.join(ROOT, '.work')
EVID = os.path.join(ROOT, 'evidence')
REPLAYS = os.path.join(EVID, 'replays')
PY = sys.executable
NPROC = int(os.environ.get('VF_NPROC', '0')) or min(16, os.cpu_count() or 4)


def module_for(prop):
    return importlib.import_module(f'vflib.monitors.{prop.lower()}')


def sig(*parts) -> str:
    return hashlib.blake2b(
        '|'.join(map(str, parts)).encode(), digest_size=8).hexdigest()


class Shard:
    """Accumulator a worker fills in and dumps as JSON."""

    def __init__(self):
        self.evaluations = 0
        self.sigs = set()
        self.counters = Counter()
        self.samples = []
        self.violations = []
        self.truncated = False
        self.extra = {}

    def add_sample(self, s, limit=2):
        if len(self.samples) < limit:
            self.samples.append(s)

    def violation(self, what, payload, kf=None, **kw):
        if len(self.violations) < 25:
            d = {'what': what, 'payload': payload, 'kf': kf}
            d.update(kw)
            self.violations.append(d)
        self.counters['violations_raw'] += 1

    def dump(self):
        return {
            'evaluations': self.evaluations, 'sigs': sorted(self.sigs),
            'counters': dict(self.counters), 'samples': self.samples,
            'violations': self.violations, 'truncated': self.truncated,
            'extra': self.extra,
        }


def shard_seed(seed, prop, shard) -> int:
    h = hashlib.blake2b(f'{seed}|{prop}|{shard}'.encode(), digest_size=6)
    return int.from_bytes(h.digest(), 'big')


def worker_main(argv):
    import argparse
    ap = argparse.ArgumentParser()
    ap.add_argument('prop')
    ap.add_argument('--seed', type=int, required=True)
    ap.add_argument('--shard', type=int, required=True)
    ap.add_argument('--of', type=int, required=True)
    ap.add_argument('--tier', default='quick')
    ap.add_argument('--deadline', type=float, required=True)
    ap.add_argument('--out', required=True)
    a = ap.parse_args(argv)
    mod = module_for(a.prop)
    t0 = time.time()
    res = mod.run_shard(a.seed, a.shard, a.of, a.tier, t0 + a.deadline)
    d = res.dump()
    d['wall_s'] = time.time() - t0
    tmp = a.out + '.tmp'
    with open(tmp, 'w') as f:
        json.dump(d, f, default=repr)
    os.replace(tmp, a.out)
    return 0


def load_known():
    path = os.path.join(ROOT, 'known_findings.json')
    if not os.path.exists(path):
        return {}
    with open(path) as f:
        data = json.load(f)
    out = {}
    for e in data.get('findings', []):
        out.setdefault(e['property'], {})[e['classifier']] = e
    return out


def check_main(argv):
    import argparse
    ap = argparse.ArgumentParser()
    ap.add_argument('prop')
    ap.add_argument('--tier', default=os.environ.get('VERIF_TIER', 'quick'))
    ap.add_argument('--seed', type=int,
                    default=int(os.environ.get('VERIF_SEED', '20260928')))
    a = ap.parse_args(argv)
    if a.tier not in ('quick', 'thorough'):
        a.tier = 'quick'
    prop = a.prop.upper()
    mod = module_for(prop)
    t0 = time.time()
    tag = os.environ.get('VF_WORKTAG', '')
    wdir = os.path.join(WORK, prop + tag)
    replays = REPLAYS if not tag else os.path.join(WORK, 'replays' + tag)
    os.makedirs(wdir, exist_ok=True)
    os.makedirs(replays, exist_ok=True)
    for fn in os.listdir(wdir):
        os.unlink(os.path.join(wdir, fn))
    nshards = getattr(mod, 'SHARDS', {}).get(a.tier, NPROC)
    budget = mod.TIME[a.tier]
    env = dict(os.environ)
    env['PYTHONHASHSEED'] = '0'
    env['PYTHONPATH'] = ROOT + os.pathsep + env.get('PYTHONPATH', '')
    env.setdefault('PYTHONDONTWRITEBYTECODE', '1')
    pending = list(range(nshards))
    running = {}
    died = []
    watchdog = budget * 3 + 120
    while pending or running:
        while pending and len(running) < NPROC:
            i = pending.pop(0)
            out = os.path.join(wdir, f'shard_{i}.json')
            log = open(os.path.join(wdir, f'shard_{i}.log'), 'w')
            wenv = env
            if getattr(mod, 'NO_ASSERT_SHARDS', False) and i % 2:
                # odd shards run the code under test with its own assert
                # statements compiled out (python -O): where the engine's
                # internal assertions would stop a hand, the invariant
                # monitors get to see the state it would have reached
                wenv = dict(env, PYTHONOPTIMIZE='1')
            p = subprocess.Popen(
                [PY, '-m', 'vflib.run', 'worker', prop, '--seed',
                 str(a.seed), '--shard', str(i), '--of', str(nshards),
                 '--tier', a.tier, '--deadline', str(budget), '--out', out],
                cwd=ROOT, env=wenv, stdout=log, stderr=subprocess.STDOUT)
            running[i] = (p, time.time(), log)
        time.sleep(0.05)
        for i, (p, ts, log) in list(running.items()):
            rc = p.poll()
            if rc is None:
                if time.time() - ts > watchdog:
                    p.kill()
                    p.wait()
                    died.append((i, 'watchdog'))
                    log.close()
                    del running[i]
                continue
            log.close()
            del running[i]
            if rc != 0:
                died.append((i, f'exit {rc}'))
    # merge
    total = Shard()
    truncated = 0
    maxwall = 0.0
    for i in range(nshards):
        out = os.path.join(wdir, f'shard_{i}.json')
        if not os.path.exists(out):
            if not any(j == i for j, _ in died):
                died.append((i, 'no output'))
            continue
        with open(out) as f:
            d = json.load(f)
        total.evaluations += d['evaluations']
        total.sigs.update(d['sigs'])
        total.counters.update(d['counters'])
        for s in d['samples']:
            total.add_sample(s, limit=4)
        total.violations.extend(d['violations'])
        truncated += bool(d['truncated'])
        maxwall = max(maxwall, d.get('wall_s', 0))
        for k, v in d.get('extra', {}).items():
            if isinstance(v, (int, float)):
                total.extra[k] = total.extra.get(k, 0) + v
            else:
                total.extra.setdefault(k, v)
    known = load_known().get(prop, {})
    real = []
    matched = Counter()
    for v in total.violations:
        if v.get('kf') and v['kf'] in known:
            matched[v['kf']] += 1
        else:
            real.append(v)
    lines = []
    for kf, cnt in sorted(matched.items()):
        lines.append(f"KNOWN-FINDING: property={prop} {known[kf]['what']} "
                     f"[classifier={kf}, seen {cnt}x in this run]")
    seen_payload = set()
    nrep = 0
    for v in real:
        key = sig(json.dumps(v['payload'], sort_keys=True, default=repr))
        if key in seen_payload:
            continue
        seen_payload.add(key)
        if nrep >= 10:
            break
        nrep += 1
        path = os.path.join(replays, f'{prop}-{key}.json')
        with open(path, 'w') as f:
            json.dump({'property': prop, 'what': v['what'],
                       'payload': v['payload']}, f, indent=1, default=repr)
        lines.append(f'VIOLATION property={prop} replay={path}')
        lines.append(f'  what: {v["what"][:600]}')
    wall = time.time() - t0
    # inconclusive?
    reasons = []
    if died:
        reasons.append(f'workers died: {died[:4]}')
    minnt = mod.MIN_NONTRIVIAL[a.tier]
    if len(total.sigs) < minnt:
        reasons.append(
            f'only {len(total.sigs)} distinct non-trivial cases (< {minnt})')
    for name in getattr(mod, 'REQUIRED', ()):
        if total.counters.get(name, 0) <= 0:
            reasons.append(f'required event class never observed: {name}')
    exhaustive = bool(getattr(mod, 'EXHAUSTIVE', {}).get(a.tier)) \
        and not truncated and not died
    evidence = {
        'property_id': prop,
        'tier': a.tier,
        'seed': a.seed,
        'level': 'exploration',
        'coverage': {
            'evaluations': total.evaluations,
            'distinct_nontrivial': len(total.sigs),
            'rule': mod.RULE,
            'samples': total.samples or ['(none)'],
            'exhaustive': exhaustive,
            'event_counters': dict(sorted(total.counters.items())),
            'known_findings_matched': dict(matched),
            'shards': nshards,
            'shards_truncated_by_time': truncated,
            'workers_died': len(died),
            'verdict': ('violated' if real else
                        'inconclusive' if reasons else 'held-on-observed'),
            'inconclusive_reasons': reasons,
            'repo': os.path.abspath(os.environ.get('VF_REPO', '/repo')),
        },
        'assumptions': list(mod.ASSUMPTIONS),
        'wall_s': round(wall, 2),
        'violations': len(real),
    }
    evidence['coverage'].update(total.extra)
    if os.environ.get('VF_NO_EVIDENCE') != '1':
        with open(os.path.join(EVID, f'{prop}.json'), 'w') as f:
            json.dump(evidence, f, indent=1, default=repr)
    for ln in lines:
        print(ln)
    cs = total.counters
    print(f'{prop} {a.tier}: evaluations={total.evaluations} '
          f'distinct_nontrivial={len(total.sigs)} violations={len(real)} '
          f'known={sum(matched.values())} wall={wall:.1f}s '
          f'truncated_shards={truncated}')
    top = ', '.join(f'{k}={v}' for k, v in sorted(cs.items())[:40])
    print(f'  counters: {top}')
    if real:
        return 1
    if reasons:
        print(f'INCONCLUSIVE property={prop} reason={"; ".join(reasons)}')
        return 2
    return 0


def replay_main(argv):
    path = argv[0]
    with open(path) as f:
        d = json.load(f)
    prop = d['property']
    mod = module_for(prop)
    vs = mod.replay(d['payload'])
    known = load_known().get(prop, {})
    rc = 0
    for v in vs:
        if v.get('kf') and v['kf'] in known:
            print(f"KNOWN-FINDING: property={prop} {known[v['kf']]['what']}")
        else:
            print(f'VIOLATION property={prop} replay={path}')
            print(f'  what: {v["what"][:2000]}')
            rc = 1
    if not vs:
        print(f'replay of {path}: no violation reproduced')
    return rc


def main():
    if len(sys.argv) < 2:
        print(__doc__)
        return 64
    cmd, argv = sys.argv[1], sys.argv[2:]
    if cmd == 'worker':
        return worker_main(argv)
    if cmd == 'check':
        return check_main(argv)
    if cmd == 'replay':
        return replay_main(argv)
    print(__doc__)
    return 64


if __name__ == '__main__':
    sys.exit(main())
