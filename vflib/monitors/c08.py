"""C08 -- query, verifier and operation agree; a refused operation changes
nothing (probe battery at sampled reachable states)."""
from __future__ import annotations

from copy import deepcopy
from fractions import Fraction
import random
import traceback
import warnings

from vflib import gen, driver, hist
from vflib.driver import Monitor, OPS, QUERY, VERIFY

PROP = 'C08'
RULE = (
    '(i) bounded-exhaustive: EVERY state of the complete decision trees of '
    'small games (vflib.explore: 2-3 players, stacks of 1-8 chips) gets the '
    'full probe battery; (ii) seeded random hands of every family (strict and lenient warnings, both '
    'modes, any automation subset); at sampled decision points (every state '
    'of the first steps, then 1-in-k) and after the hand the probe battery '
    'calls, for each of the sixteen operations and a hostile argument set '
    '(every player index incl. wrong players, wrong phase, amounts 0 / '
    'negative / min-1 / min / max / max+1, counts -3 / 0 / 1 / exact / '
    'exact+1, dealable / unknown / already-dealt / duplicate / too many '
    'cards, discards not held or held once but named twice, show arguments '
    'None / True / False / all / partial / too many / foreign, run-out '
    'counts None / -3 / 0 / 1 / 2 x every player): can_x(a) must return a '
    'bool without raising; can_x(a) <=> verify_x(a) returns <=> x(a) '
    'succeeds (executed on a deep copy); refusals are ValueError (or '
    'UserWarning under strict warnings); the deep fingerprint (repr of all '
    'fields incl. private ones) is unchanged after every query, verifier '
    'and refused operation; an explicit player index is the index in the '
    'returned operation. distinct_nontrivial = distinct (operation, '
    'argument class, outcome, phase) tuples x game family.')
ASSUMPTIONS = [
    'arguments are of the documented types (ints, cards, booleans, None)',
    'repr(State) covers every dataclass field (checked at start-up)',
]
CASES = {'quick': 2200, 'thorough': 30000}
TIME = {'quick': 66, 'thorough': 520}
MIN_NONTRIVIAL = {'quick': 300, 'thorough': 600}
REQUIRED = ('probed_states', 'probe_triplets', 'refused_operations_checked',
            'accepted_operations_checked', 'explicit_index_checked',
            'warned_refusals_strict', 'post_hand_states_probed',
            'wrong_player_probes', 'explored_nodes', 'trees_completed')

CUSTOMS = ('kuhn', 'draw5', 'stud5', 'greek', 'holdem8', 'badugi1',
           'razzdraw', 'random', 'studdraw')
OK_EXC = (ValueError, UserWarning)


def fp(state):
    return repr(state)


def some(rng, seq, k):
    seq = list(seq)
    return seq if len(seq) <= k else rng.sample(seq, k)


def battery(s, rng):
    """Yield (op, args, argclass)."""
    n = s.player_count
    idx = list(range(n))
    for op in ('post_ante', 'post_blind_or_straddle', 'kill_hand',
               'pull_chips'):
        yield op, (), 'default'
        for i in idx:
            yield op, (i,), 'index'
    for op in ('collect_bets', 'fold', 'check_or_call', 'post_bring_in',
               'push_chips'):
        yield op, (), 'default'
    # cards
    dealable = list(s.get_dealable_cards())
    inplay = [c for c in s.cards_in_play]
    d1 = dealable[:1]
    d3 = some(rng, dealable, 3)
    yield 'burn_card', (), 'default'
    for c in d1:
        yield 'burn_card', (repr(c),), 'dealable'
    yield 'burn_card', ('??',), 'unknown'
    if inplay:
        yield 'burn_card', (repr(rng.choice(inplay)),), 'in-play'
    if len(d3) >= 2:
        yield 'burn_card', (repr(d3[0]) + repr(d3[1]),), 'too-many'
    # hole dealing
    yield 'deal_hole', (), 'default'
    pend = [len(x) for x in s.hole_dealing_statuses]
    exact = max(pend) if pend else 0
    for k in (-3, 0, 1, exact, exact + 1):
        yield 'deal_hole', (k,), 'count'
    for i in idx:
        yield 'deal_hole', (None, i), 'index'
        if d1:
            yield 'deal_hole', (repr(d1[0]), i), 'dealable+index'
        # bounds are per named player: exactly what he is owed / one more
        owed = len(s.hole_dealing_statuses[i])
        if owed:
            yield 'deal_hole', (owed, i), 'owed+index'
        yield 'deal_hole', (owed + 1, i), 'owed+1+index'
        if len(dealable) > owed:
            yield 'deal_hole', (''.join(map(repr, dealable[-(owed + 1):])),
                                i), 'owed+1 cards+index'
    if len(d3) >= 3:
        yield 'deal_hole', (''.join(map(repr, d3[:2])),), 'dealable2'
        yield 'deal_hole', (repr(d3[0]) * 2,), 'duplicate'
    any_down = any(x and not x[0] for x in s.hole_dealing_statuses)
    yield 'deal_hole', ('??',), 'unknown-down' if any_down else 'unknown'
    if inplay:
        yield 'deal_hole', (repr(rng.choice(inplay)),), 'in-play'
    if dealable:
        yield 'deal_hole', (''.join(map(repr, some(rng, dealable, 9))),), \
            'too-many'
    # board dealing
    yield 'deal_board', (), 'default'
    bc = s.board_dealing_count or 0
    for k in (-3, 0, 1, bc, bc + 1):
        yield 'deal_board', (k,), 'count'
    if d3:
        yield 'deal_board', (''.join(map(repr, d3[:max(1, min(bc, 3))])),), \
            'dealable'
        yield 'deal_board', (repr(d3[0]) * 2,), 'duplicate'
    yield 'deal_board', ('??',), 'unknown'
    for half in ('?s', 'A?'):
        yield 'deal_board', (half,), 'half-known'
        yield 'burn_card', (half,), 'half-known'
        yield 'deal_hole', (half,), 'half-known'
    if inplay:
        yield 'deal_board', (repr(rng.choice(inplay)),), 'in-play'
    if dealable:
        yield 'deal_board', (''.join(map(repr, some(rng, dealable, 7))),), \
            'too-many'
    # discards
    yield 'stand_pat_or_discard', (), 'default'
    j = s.stander_pat_or_discarder_index
    held = list(s.hole_cards[j]) if j is not None else (
        list(s.hole_cards[0]) if s.hole_cards else [])
    if held:
        yield 'stand_pat_or_discard', (repr(held[0]),), 'held1'
        yield 'stand_pat_or_discard', (tuple(held),), 'held-all'
        yield 'stand_pat_or_discard', (repr(held[0]) * 2,), 'held-twice'
    if d1:
        yield 'stand_pat_or_discard', (repr(d1[0]),), 'not-held'
    # amounts
    lo = s.min_completion_betting_or_raising_to_amount
    hi = s.max_completion_betting_or_raising_to_amount
    yield 'complete_bet_or_raise_to', (), 'default'
    if lo is not None:
        unit = 1 if isinstance(lo, int) else lo / 8
        for a, cls in ((0, 'zero'), (-lo, 'negative'), (lo - unit, 'min-1'),
                       (lo, 'min'), (hi, 'max'), (hi + unit, 'max+1'),
                       ((lo + hi) / 2 if not isinstance(lo, int)
                        else (lo + hi) // 2, 'mid')):
            yield 'complete_bet_or_raise_to', (a,), cls
    else:
        for a in (0, 1, 2, 10 ** 6):
            yield 'complete_bet_or_raise_to', (a,), 'no-interval'
    for a in (10 ** 400, -10 ** 400, Fraction(10 ** 400, 3)):
        yield 'complete_bet_or_raise_to', (a,), 'astronomic'
    # run-outs
    yield 'select_runout_count', (), 'default'
    for c in (None, -3, 0, 1, 2):
        yield 'select_runout_count', (c,), 'count'
        for i in idx:
            yield 'select_runout_count', (c, i), 'count+index'
    # showing
    yield 'show_or_muck_hole_cards', (), 'default'
    for a in (True, False):
        yield 'show_or_muck_hole_cards', (a,), 'bool'
        for i in idx:
            yield 'show_or_muck_hole_cards', (a, i), 'bool+index'
    for i in idx:
        h = list(s.hole_cards[i])
        if not h:
            continue
        if all(h):
            yield 'show_or_muck_hole_cards', (tuple(h), i), 'all-cards'
            yield 'show_or_muck_hole_cards', (tuple(h[:1]), i), 'partial'
            yield 'show_or_muck_hole_cards', (
                ''.join(map(repr, h)) + (repr(d1[0]) if d1 else 'As'), i), \
                'too-many'
            if d1:
                yield 'show_or_muck_hole_cards', (
                    tuple(h[:-1]) + (d1[0],), i), 'foreign'
        yield 'show_or_muck_hole_cards', ((), i), 'empty'


def describe_exc(exc):
    return ''.join(traceback.format_exception_only(type(exc), exc)).strip()


class ProbeMonitor(Monitor):

    def on_begin(self, ctx):
        self.rng = random.Random(ctx.cfg['seed'] ^ 0xc08)
        self.nprobed = 0
        self.seen_phase = set()
        self.sigs = set()

    def on_decision(self, ctx, s, avail):
        phase = tuple(sorted(avail))
        novel = phase not in self.seen_phase
        if not (novel or self.rng.random() < 0.04):
            return
        if self.nprobed >= 14:
            return
        self.seen_phase.add(phase)
        self.nprobed += 1
        self.probe(ctx, s, avail)

    def probe(self, ctx, s, avail):
        ctx.counters['probed_states'] += 1
        if not s.status:
            ctx.counters['post_hand_states_probed'] += 1
        phase = driver.PHASE[avail[0]] if avail else 'over'
        base = fp(s)
        copy = None
        strict = ctx.cfg['strict']
        for op, args, cls in battery(s, self.rng):
            ctx.counters['probe_triplets'] += 1
            where = f'{op}{args!r} [{cls}] in phase {phase}'
            # query
            try:
                q = getattr(s, QUERY[op])(*args)
            except Exception as exc:   # noqa: BLE001
                ctx.violate(f'query can_{where} raised '
                            f'{describe_exc(exc)} [{hist.exc_site(exc)}]',
                            probe=(op, args, cls))
                continue
            if not isinstance(q, bool):
                ctx.violate(f'query {where} returned {q!r}, not a bool',
                            probe=(op, args, cls))
            # verifier
            try:
                getattr(s, VERIFY[op])(*args)
                v = True
            except OK_EXC as exc:
                v = False
                if isinstance(exc, UserWarning):
                    ctx.counters['warned_refusals_strict'] += 1
            except Exception as exc:   # noqa: BLE001
                ctx.violate(f'verifier {where} raised {describe_exc(exc)} '
                            f'[{hist.exc_site(exc)}] (query said {q})',
                            probe=(op, args, cls))
                continue
            if fp(s) != base:
                ctx.violate(f'query/verifier {where} changed the state',
                            probe=(op, args, cls))
                return
            # operation on a copy
            if copy is None:
                copy = deepcopy(s)
            try:
                res = getattr(copy, op)(*args)
                ok = True
                exc = None
            except OK_EXC as e:
                ok, res, exc = False, None, e
            except Exception as e:   # noqa: BLE001
                ok, res, exc = False, None, e
                ctx.violate(
                    f'operation {where} raised {describe_exc(e)} '
                    f'[{hist.exc_site(e)}] (query {q}, verifier {v})',
                    probe=(op, args, cls), exc=e)
            if ok:
                ctx.counters['accepted_operations_checked'] += 1
                if len(args) and cls.endswith('index') and hasattr(
                        res, 'player_index'):
                    ctx.counters['explicit_index_checked'] += 1
                    if res.player_index != args[-1]:
                        ctx.violate(
                            f'{where}: explicit player index {args[-1]} '
                            f'but the operation was applied to player '
                            f'{res.player_index}', probe=(op, args, cls))
                copy = None
            else:
                ctx.counters['refused_operations_checked'] += 1
                if fp(copy) != base:
                    ctx.violate(
                        f'refused operation {where} '
                        f'({describe_exc(exc)} [{hist.exc_site(exc)}]) left '
                        f'the state modified (query {q}, verifier {v})',
                        probe=(op, args, cls), exc=exc, mutated=True)
                    copy = None
            if not (q == v == ok):
                ctx.violate(
                    f'{where}: query={q} verifier={"returns" if v else "raises"} '
                    f'operation={"succeeds" if ok else "fails: " + describe_exc(exc)}',
                    probe=(op, args, cls), exc=exc)
            if cls in ('index', 'count+index', 'bool+index') and not q:
                ctx.counters['wrong_player_probes'] += 1
            self.sigs.add((op, cls, q, phase))

    def on_end(self, ctx, s):
        if 'op_exc' in ctx.data:
            return
        if not s.status:
            self.probe(ctx, s, [])
        ctx.data['c08_sigs'] = self.sigs
        ctx.tag('probed')


class EndProbe(ProbeMonitor):
    """For the bounded-exhaustive walk (vflib.explore): every node of the
    decision tree is the end of exactly one path, so probing at the end of
    each path probes every reachable state of the small game once."""

    def on_decision(self, ctx, s, avail):
        return

    def on_end(self, ctx, s):
        if 'op_exc' in ctx.data:
            return
        self.probe(ctx, s, driver.available(s))
        ctx.data['c08_sigs'] = self.sigs
        ctx.tag('probed')


def make_monitors():
    return [ProbeMonitor()]


def gen_kwargs(rng):
    return dict(
        customs=CUSTOMS, p_custom=0.25,
        chip_types=('int', 'int', 'int', 'Fraction'),
        max_boards=2, rake_ok=True, strict_p=0.7,
        auto_styles=('any', 'none', 'typical', 'single-off'),
    )


def pol_tweak(pol, cfg, rng):
    if rng.random() < 0.08 and cfg.get('game') in gen.BOARD_GAMES:
        # anonymised boards: unknown and half-known community cards
        pol['deal'] = 'unknownboard'
        cfg['autos'] = [a for a in cfg['autos'] if a != 'BOARD_DEALING']
        cfg['mode'] = 'CASH_GAME'
    if rng.random() < 0.3:
        pol['policy'] = rng.choice(['passive', 'allin'])
    pol['partial_show'] = rng.random() < 0.2
    if rng.random() < 0.1:
        pol['muck'] = 'any'
        pol['muck_p'] = rng.choice([0.1, 0.6, 0.9])


def nontrivial(ctx):
    return 'probed' in ctx.tags


def classify(ctx, v):
    return None


def run_shard(seed, shard, of, tier, deadline):
    from vflib.run import sig
    allsigs = set()

    def after_hand(ctx, res):
        fam = ctx.cfg.get('game') or ctx.cfg.get('template')
        for t in ctx.data.get('c08_sigs', ()):
            allsigs.add(sig(fam, *t))
    res = hist.run_history_shard(
        PROP, seed, shard, of, tier, deadline, cases=CASES,
        gen_kwargs=gen_kwargs, make_monitors=make_monitors,
        nontrivial=nontrivial, pol_tweak=pol_tweak, classify=classify,
        after_hand=after_hand, signature=lambda ctx: 'x')
    # every state of the complete decision trees of small games
    import random as _random
    import time as _time
    from vflib import explore
    from vflib.run import shard_seed
    xr = _random.Random(shard_seed(seed, PROP + ':explore', shard))
    left = max(2.0, min({'quick': 10, 'thorough': 120}[tier],
                        deadline - _time.time() + 6))
    before = len(res.sigs)

    def nt(ctx):
        after_hand(ctx, res)
        return False
    explore.run_exploration(res, PROP, xr, lambda: [EndProbe()], left,
                            {'quick': 400, 'thorough': 6000}[tier],
                            classify=classify, nontrivial=nt)
    res.sigs = allsigs
    return res


def replay(payload):
    return hist.replay_history(payload, make_monitors, PROP, classify)
