"""C09 -- automation only changes who performs a step (twin run: automated
run vs manual replay with default arguments on the same deck)."""
from __future__ import annotations

from vflib import gen, driver, hist, twin, load
from vflib.driver import Monitor, opname, AUTO_OF, OPS, QUERY

PROP = 'C09'
RULE = (
    'seeded random hands played with a random subset S of the 11 '
    'automations (thorough: every one of the 2048 subsets is used, round '
    'robin, over all game families) on a deterministic keyed deck. The '
    'operation log of the automated run is then replayed on a state of the '
    'same game with NO automation and the same deck: operations whose kind '
    'is in S are performed with DEFAULT arguments (and must be available '
    'exactly there), player decisions with the logged arguments. After every '
    'operation the returned record must equal the logged one; at every point '
    'where the automated run stopped for a decision all public attributes '
    '(stacks, bets, statuses, cards and facings, boards, piles, deck order, '
    'pots, actor, street, status) must be equal and no step of a kind in S '
    'may still be available; both runs end terminal with equal stacks and '
    'logs; the logged operations of kinds outside S are exactly the client '
    'calls, in order (the engine performs nothing that was not automated). '
    'One hand in ten is 7-8 handed stud played passively to seventh street '
    '(deck exhaustion: community card instead of hole cards); one in ten a '
    'cash game with manual partial / face-down shows and automated hand '
    'killing. The shuffle REQUESTS (multiset handed to the shuffler) made '
    'by the constructor and the operations of the automated run must equal, '
    'in order, those made by the manual twin (the harness\'s own queries '
    'are not recorded): a hidden extra reshuffle would desynchronise a real '
    'random generator. '
    'Non-trivial = S is a proper non-empty subset; distinct by (game, '
    'players, S, mode, boards, operation-kind sequence).')
ASSUMPTIONS = [
    'vflib.load replaces the two module-level shuffle functions by a keyed '
    'permutation, so both runs see the same deck and the same replenish '
    'order',
]
CASES = {'quick': 12000, 'thorough': 160000}
TIME = {'quick': 70, 'thorough': 560}
MIN_NONTRIVIAL = {'quick': 700, 'thorough': 8000}
REQUIRED = ('twin_pairs', 'automated_steps_replayed_with_defaults',
            'decision_points_compared', 'terminal_pairs_compared',
            'subsets_seen', 'client_call_sequences_compared',
            'stud_fallback_twins',
            'observer_query_points',
            'forks', 'reshuffles_compared')

CUSTOMS = ('kuhn', 'draw5', 'stud5', 'greek', 'courchevel', 'holdem8',
           'plo8', 'badugi1', 'razzdraw', 'random')


class TwinMonitor(Monitor):

    def on_begin(self, ctx):
        self.snaps = {}

    def on_created(self, ctx, state):
        self.snaps[len(state.operations)] = twin.public_snapshot(state)

    def on_decision(self, ctx, state, avail):
        self.snaps[len(state.operations)] = twin.public_snapshot(state)

    def on_end(self, ctx, a):
        if 'op_exc' in ctx.data or 'too_long' in ctx.data:
            return
        cfg = ctx.cfg
        S = set(cfg['autos'])
        log = list(a.operations)
        requests = []
        load.SHUFFLE_TRACE[0] = requests
        try:
            b = twin.fresh_state(cfg, autos=())
        except Exception as exc:   # noqa: BLE001
            ctx.violate(f'manual twin could not be constructed: '
                        f'{type(exc).__name__}: {exc}')
            return
        finally:
            load.SHUFFLE_TRACE[0] = None
        ctx.counters['twin_pairs'] += 1

        def compare_point(where):
            n = len(b.operations)
            snap = self.snaps.get(n)
            if snap is None:
                return
            ctx.counters['decision_points_compared'] += 1
            mine = twin.public_snapshot(b)
            d = twin.diff(snap, mine)
            if d:
                ctx.violate(
                    f'{where}: after {n} operations the manual twin '
                    f'differs from the automated run in {d}: e.g. '
                    f'{d[0]}: automated {snap[d[0]]} vs manual '
                    f'{mine[d[0]]}')
                return
            # "as soon as it becomes available": nothing automated pending
            for op in OPS:
                if AUTO_OF.get(op) in S and getattr(b, QUERY[op])():
                    ctx.violate(
                        f'{where}: after {n} operations the automated run '
                        f'stopped although {op} (automated) is available '
                        f'in the manual twin')
                    return

        # automation performs only the steps that are automated: every
        # logged operation whose kind is not in S was a client call, in order
        client = [c[0] for c in ctx.script if c[0] != '__fork__']
        manual = [opname(op) for op in log if AUTO_OF.get(opname(op)) not in S]
        ctx.counters['client_call_sequences_compared'] += 1
        if client != manual:
            k = next((i for i, (x, y) in enumerate(zip(client, manual))
                      if x != y), min(len(client), len(manual)))
            ctx.violate(
                f'the log holds {len(manual)} operations of kinds that are '
                f'not automated, the client made {len(client)} calls; first '
                f'difference at #{k}: log {manual[k:k + 3]} vs calls '
                f'{client[k:k + 3]} (the engine performed a step nobody '
                f'automated, or dropped one)')
            return
        if any(type(op).__name__ == 'BoardDealing' for op in log) and any(
                st.hole_dealing_statuses and not st.board_dealing_count
                and i for i, st in enumerate(a.streets)) and not any(
                st.board_dealing_count for st in a.streets):
            ctx.counters['stud_fallback_twins'] += 1
        compare_point('start')
        for k, op in enumerate(log):
            if ctx.violations:
                return
            name = opname(op)
            automated = AUTO_OF.get(name) in S
            if automated:
                args = []
                ctx.counters['automated_steps_replayed_with_defaults'] += 1
            else:
                _, args = twin.call_for(op)
            load.SHUFFLE_TRACE[0] = requests
            try:
                got = getattr(b, name)(*args)
            except Exception as exc:   # noqa: BLE001
                load.SHUFFLE_TRACE[0] = None
                ctx.violate(
                    f'operation #{k} {op!r} of the automated run '
                    f'({"automated, default arguments" if automated else "player decision"}'
                    f') is refused by the manual twin: '
                    f'{type(exc).__name__}: {exc}')
                return
            load.SHUFFLE_TRACE[0] = None
            if got != op:
                ctx.violate(
                    f'operation #{k}: automated run logged {op!r}, the '
                    f'manual twin performing {name}'
                    f'({"" if automated else args}) produced {got!r}')
                return
            compare_point(f'after operation #{k} ({name})')
        if ctx.violations:
            return
        ctx.counters['terminal_pairs_compared'] += 1
        if a.status != b.status or list(a.stacks) != list(b.stacks):
            ctx.violate(f'final: automated status/stacks {a.status}/'
                        f'{a.stacks}, manual {b.status}/{b.stacks}')
        if list(a.operations) != list(b.operations):
            ctx.violate('final: operation logs differ')
        fa, fb = twin.full_fingerprint(a), twin.full_fingerprint(b)
        d = twin.diff(fa, fb)
        if d:
            ctx.violate(f'final: state fields differ: {d}')
        # "given the same shuffled deck": the operations of both runs must
        # ask the shuffler for the same things in the same order (requests
        # made by the harness's own queries are not recorded), or a real
        # random generator would hand the two runs different decks
        mine = ctx.data.get('shuffle_requests')
        if mine is not None and 'forked' not in ctx.data:
            ctx.counters['shuffle_request_sequences_compared'] += 1
            if len(mine) > 1:
                ctx.counters['reshuffles_compared'] += len(mine) - 1
            if mine != requests:
                k = next((i for i, (x, y) in enumerate(zip(mine, requests))
                          if x != y), min(len(mine), len(requests)))
                ctx.violate(
                    f'the operations of the automated run asked for '
                    f'{len(mine)} shuffles, those of the manual twin for '
                    f'{len(requests)}; first difference at request #{k}: '
                    f'automated {mine[k:k + 1]} vs manual '
                    f'{requests[k:k + 1]} (with a real random generator the '
                    f'two runs would not see the same shuffled deck)')
        if 0 < len(S) < 11:
            ctx.tag('proper-subset')


def make_monitors():
    return [driver.Observer(), driver.Interleaver(), TwinMonitor()]


SUBSET_CURSOR = [0]


def gen_kwargs(rng):
    if rng.random() < 0.1:
        # 7-8 handed stud played to seventh street: the deck cannot cover
        # the last hole cards and one community card is dealt instead
        return dict(
            games=gen.STUD_GAMES, customs=(), chip_types=('int',),
            strict_p=1.0, auto_styles=('any', 'single-off', 'single-on'),
            min_n=8, hostile_chips=rng.random() < 0.3)
    return dict(
        customs=CUSTOMS, p_custom=0.25, chip_types=('int', 'int', 'Fraction'),
        max_boards=2, rake_ok=True, divmod_ok=False, strict_p=1.0,
        auto_styles=('any',),
    )


def make_cfg_filter(tier, shard, of):
    state = {'i': shard}

    def cfg_filter(cfg, rng):
        if tier == 'thorough':
            # every one of the 2^11 subsets, round robin over the shards
            m = state['i'] % 2048
            state['i'] += of
            cfg['autos'] = [a for j, a in enumerate(gen.ALL_AUTOS)
                            if m >> j & 1]
        return cfg
    return cfg_filter


def pol_tweak(pol, cfg, rng):
    if rng.random() < 0.4:
        pol['fork_p'] = 0.03     # continue on a deepcopy mid-hand
    if pol['deal'] == 'unknown':
        pol['deal'] = 'default'
    if rng.random() < 0.1:
        # cash game, showing is a player decision (partial shows, hands kept
        # face down), killing the beaten hands is automated
        pol['partial_show'] = True
        pol['empty_show'] = True
        cfg['mode'] = 'CASH_GAME'
        cfg['autos'] = [a for a in cfg['autos']
                        if a != 'HOLE_CARDS_SHOWING_OR_MUCKING']
        if 'HAND_KILLING' not in cfg['autos'] and rng.random() < 0.7:
            cfg['autos'].append('HAND_KILLING')
    if cfg.get('game') in gen.STUD_GAMES and cfg['n'] >= 7:
        pol['policy'] = 'passive'


def nontrivial(ctx):
    return 'proper-subset' in ctx.tags


def run_shard(seed, shard, of, tier, deadline):
    subsets = set()

    def after_hand(ctx, res):
        subsets.add(tuple(ctx.cfg['autos']))
    res = hist.run_history_shard(
        PROP, seed, shard, of, tier, deadline, cases=CASES,
        gen_kwargs=gen_kwargs, make_monitors=make_monitors,
        nontrivial=nontrivial, pol_tweak=pol_tweak,
        cfg_filter=make_cfg_filter(tier, shard, of), after_hand=after_hand)
    res.counters['subsets_seen'] = len(subsets)
    return res


def replay(payload):
    return hist.replay_history(payload, make_monitors, PROP)
