"""C19 -- equivalent ways of writing chips and cards mean the same thing;
invalid layouts are rejected; divmod/rake parts add up."""
from __future__ import annotations

from decimal import Decimal
from fractions import Fraction
from functools import partial
import math
import random
import time

from vflib import load, gen, twin
from vflib.run import Shard, shard_seed, sig
import pokerkit
from pokerkit import (
    Automation, BettingStructure, Card, Deck, Mode, Opening, Rank, State,
    Street, Suit,
)
from pokerkit import games as pk_games
from pokerkit import hands as pk_hands
from pokerkit.utilities import clean_values, divmod as pk_divmod, \
    rake as pk_rake

PROP = 'C19'
RULE = (
    '(1) for seeded random ante / blind-straddle / stack vectors and every '
    'representation of them (single number, list, tuple, generator, '
    'position->amount mapping with positive keys, with negative keys counted '
    'from the button, with zero entries omitted, lists with trailing zeros '
    'dropped) the created State must have the same antes, '
    'blinds_or_straddles, starting_stacks and -- on the same keyed deck -- '
    'the same full fingerprint as the state created from the explicit '
    'per-player list; (2) every card of ranks x suits incl. unknowns (14 x 5 '
    '= 70, exhaustive) round-trips through repr/parse, and Card.clean / '
    'Card.parse agree on card objects, iterables, strings with commas and '
    'spaces and the "10s" spelling; (3) each documented invalid layout is '
    'refused with ValueError by the constructor while its valid neighbour '
    'is accepted; (4) the default divmod and rake helpers are swept over '
    'int / Fraction / float / Decimal amounts, divisors 1-9, percentages '
    'and caps: parts add up to the amount, 0 <= remainder < divisor for '
    'ints, 0 <= rake <= cap; (5) one game object built from sparse '
    'mappings is called for a sequence of player counts and must give the '
    'explicit-list state each time; (6) deal_hole / burn_card / deal_board '
    'given the same known or unknown card as text, Card object, list, '
    'tuple or iterator leave identical states. distinct_nontrivial = distinct (check kind, '
    'representation kind, shape) tuples + distinct helper inputs.')
ASSUMPTIONS = [
    'the same state is decided by equality of all dataclass fields except '
    'the callables (vflib.twin.full_fingerprint)',
    'float/Decimal helper results are compared within 4 ulp',
]
CASES = {'quick': 24000, 'thorough': 300000}
TIME = {'quick': 60, 'thorough': 500}
MIN_NONTRIVIAL = {'quick': 1500, 'thorough': 4000}
REQUIRED = ('representation_states_compared', 'negative_key_mappings',
            'card_round_trips', 'card_text_forms', 'invalid_layouts_refused',
            'valid_neighbours_accepted', 'divmod_postconditions',
            'rake_postconditions', 'game_class_forms',
            'game_object_reuse_states', 'operation_card_forms',
            'hand_card_forms', 'beyond_context_precision_layouts')
EXHAUSTIVE = {'quick': False, 'thorough': False}

AUTOS = tuple(Automation)


def rep_forms(rng, vec, n, allow_sparse=True):
    """Equivalent raw forms of the explicit list `vec` (len n)."""
    out = [('list', list(vec)), ('tuple', tuple(vec)),
           ('generator', (x for x in list(vec)))]
    if len(set(vec)) == 1:
        out.append(('number', vec[0]))
    if allow_sparse:
        out.append(('mapping+', {i: v for i, v in enumerate(vec) if v}))
        out.append(('mapping-', {i - n: v for i, v in enumerate(vec) if v}))
        mixed = {}
        for i, v in enumerate(vec):
            if v:
                mixed[i - n if rng.random() < 0.5 else i] = v
        out.append(('mapping+-', mixed))
        full = {i: v for i, v in enumerate(vec)}
        out.append(('mapping-full', full))
        # mappings that are not dict subclasses (ValuesLike is Mapping)
        import types
        import collections
        sparse = {i: v for i, v in enumerate(vec) if v}
        out.append(('mappingproxy', types.MappingProxyType(dict(sparse))))
        out.append(('chainmap', collections.ChainMap({}, dict(sparse))))
        out.append(('userdict', collections.UserDict(
            {i - n: v for i, v in enumerate(vec) if v})))
        k = n
        while k and not vec[k - 1]:
            k -= 1
        if k < n:
            out.append(('short-list', list(vec[:k])))
        out.append(('long-list', list(vec) + [7, 7]))
    else:
        out.append(('mapping-full', {i: v for i, v in enumerate(vec)}))
        out.append(('mapping-full-', {i - n: v for i, v in enumerate(vec)}))
    return out


def make_state(game, gargs, stacks, n, seed):
    load.set_shuffle_key(seed)
    cls = getattr(pk_games, game)
    return cls.create_state(AUTOS[:3], *gargs, stacks, n)


def check_representations(res, rng):
    n = rng.randint(2, 7)
    unit = rng.choice([1, 1, 5, Fraction(1, 2)])
    bb = 2 * unit
    stud = rng.random() < 0.3
    if stud:
        game = rng.choice(gen.STUD_GAMES)
    else:
        game = rng.choice([g for g in gen.ALL_GAMES
                           if g not in gen.STUD_GAMES
                           and gen.MAX_PLAYERS[g] >= n])
    antes = [rng.choice([0, 0, 1, 2]) * unit for _ in range(n)]
    if rng.random() < 0.3:
        antes = [antes[0]] * n
    if stud and not any(antes):
        antes[rng.randrange(n)] = unit
    blinds = [0] * n
    blinds[0], blinds[1] = unit, bb
    if n > 2 and rng.random() < 0.5:
        blinds[2] = 2 * bb
    if n > 3 and rng.random() < 0.4:
        blinds[rng.randrange(3, n)] = -bb
    if rng.random() < 0.15:
        blinds = [0] * n
        blinds[-1] = bb
        if not any(antes):
            antes[0] = unit
    stacks = [rng.randint(10, 60) * unit for _ in range(n)]
    if rng.random() < 0.3:
        stacks = [stacks[0]] * n
    if not isinstance(unit, Fraction) and rng.random() < 0.12:
        # Decimal amounts with more significant digits than the arithmetic
        # context keeps (28): every way of writing them must hand over the
        # value as written (no form may pass it through an addition)
        big = Decimal(str(rng.randint(10 ** 29, 10 ** 31)) + '.'
                      + str(rng.randint(1, 99)))
        if rng.random() < 0.5:
            stacks = [big] * n
        else:
            stacks = [Decimal(str(rng.randint(10 ** 29, 10 ** 31)) + '.5')
                      for _ in range(n)]
        if not stud and rng.random() < 0.5:
            antes = [Decimal('1' + '0' * 27 + '3.25')] * n
        res.counters['beyond_context_precision_layouts'] += 1
    seed = rng.getrandbits(32)

    def gargs_for(a, b):
        if game in gen.BUTTON_GAMES_MINBET:
            return [True, a, b, bb]
        if game in gen.BUTTON_GAMES_TWOBETS:
            return [True, a, b, bb, 2 * bb]
        return [True, a, unit, bb, 2 * bb]
    try:
        ref = make_state(game, gargs_for(list(antes), list(blinds)),
                         list(stacks), n, seed)
    except ValueError as exc:
        res.counters['reference_layout_refused'] += 1
        return
    fref = twin.full_fingerprint(ref)
    res.counters['game_class_forms'] += 1
    which = rng.choice(['antes', 'blinds', 'stacks'] if not stud
                       else ['antes', 'stacks'])
    vec = {'antes': antes, 'blinds': blinds, 'stacks': stacks}[which]
    for kind, form in rep_forms(rng, vec, n, allow_sparse=which != 'stacks'):
        a, b, s = list(antes), list(blinds), list(stacks)
        if which == 'antes':
            a = form
        elif which == 'blinds':
            b = form
        else:
            s = form
        payload = {'kind': 'rep', 'game': game, 'which': which,
                   'form': kind, 'vec': [str(x) for x in vec], 'n': n}
        try:
            st = make_state(game, gargs_for(a, b), s, n, seed)
        except Exception as exc:   # noqa: BLE001
            res.violation(
                f'{game}: {which} given as {kind} {vec} (n={n}) raised '
                f'{type(exc).__name__}: {exc}, the explicit list is '
                f'accepted', payload)
            continue
        res.counters['representation_states_compared'] += 1
        if 'mapping-' in kind or kind == 'mapping+-':
            res.counters['negative_key_mappings'] += 1
        got = (st.antes, st.blinds_or_straddles, st.starting_stacks)
        exp = (ref.antes, ref.blinds_or_straddles, ref.starting_stacks)
        if got != exp:
            res.violation(
                f'{game}: {which} given as {kind} {vec} (n={n}) gives '
                f'antes/blinds/stacks {got}, the explicit list gives {exp}',
                payload)
            continue
        d = twin.diff(fref, twin.full_fingerprint(st))
        if d:
            res.violation(
                f'{game}: {which} given as {kind}: state differs from the '
                f'explicit-list state in {d}', payload)
        res.sigs.add(sig('rep', which, kind, n, stud))
    # clean_values directly
    for kind, form in rep_forms(rng, vec, n, allow_sparse=True):
        try:
            cv = clean_values(form, n)
        except Exception as exc:   # noqa: BLE001
            res.violation(f'clean_values({kind} of {vec}, {n}) raised '
                          f'{type(exc).__name__}: {exc}',
                          {'kind': 'clean', 'vec': [str(x) for x in vec]})
            continue
        if tuple(cv) != tuple(vec):
            res.violation(f'clean_values({kind} of {vec}, {n}) = {cv}',
                          {'kind': 'clean', 'vec': [str(x) for x in vec]})


def check_game_reuse(res, rng):
    """One game object, several tables: a game built once from sparse
    mappings (negative keys count from the button) is called for a sequence
    of different player counts; every state must equal the state made from
    the explicit per-player lists for that player count."""
    unit = rng.choice([1, 1, 5])
    bb = 2 * unit
    game = rng.choice(['NoLimitTexasHoldem', 'FixedLimitTexasHoldem',
                       'PotLimitOmahaHoldem', 'NoLimitShortDeckHoldem',
                       'FixedLimitBadugi'])
    amap = rng.choice([{-1: unit}, {-1: 2 * unit}, {1: unit}, {-2: unit},
                       {0: unit, -1: unit}, {}])
    bmap = rng.choice([{0: unit, 1: bb}, {-1: bb}, {0: unit, 1: bb, -1: -bb},
                       (unit, bb)])
    cls = getattr(pk_games, game)

    def gargs_for(a, b):
        if game in gen.BUTTON_GAMES_MINBET:
            return [True, a, b, bb]
        return [True, a, b, bb, 2 * bb]

    def explicit(m, n):
        if not isinstance(m, dict):
            return list(m) + [0] * (n - len(m))
        v = [0] * n
        for k, x in m.items():
            v[k if k >= 0 else n + k] = x
        return v
    try:
        gobj = cls(AUTOS[:3], *gargs_for(dict(amap), dict(bmap)
                                         if isinstance(bmap, dict) else bmap))
    except Exception as exc:   # noqa: BLE001
        res.violation(f'{game}(antes={amap}, blinds={bmap}) raised '
                      f'{type(exc).__name__}: {exc}',
                      {'kind': 'reuse', 'game': game})
        return
    counts = [rng.randint(3, 6) for _ in range(rng.randint(2, 4))]
    if rng.random() < 0.7:
        counts.sort(reverse=rng.random() < 0.7)
    seed = rng.getrandbits(32)
    for n in counts:
        stacks = [rng.randint(10, 60) * unit for _ in range(n)]
        payload = {'kind': 'reuse', 'game': game, 'antes': repr(amap),
                   'blinds': repr(bmap), 'counts': counts, 'n': n}
        try:
            load.set_shuffle_key(seed)
            st = gobj(list(stacks), n)
            ref = make_state(game, gargs_for(explicit(amap, n),
                                             explicit(bmap, n)),
                             list(stacks), n, seed)
        except ValueError:
            res.counters['reuse_layout_refused'] += 1
            continue
        except Exception as exc:   # noqa: BLE001
            res.violation(f'{game} game object reused for n={n} raised '
                          f'{type(exc).__name__}: {exc}', payload)
            return
        res.counters['game_object_reuse_states'] += 1
        got = (st.antes, st.blinds_or_straddles, st.starting_stacks)
        exp = (ref.antes, ref.blinds_or_straddles, ref.starting_stacks)
        d = twin.diff(twin.full_fingerprint(ref), twin.full_fingerprint(st))
        if got != exp or d:
            res.violation(
                f'{game}: one game object (antes {amap}, blinds {bmap}) '
                f'called for player counts {counts}: at n={n} it gives '
                f'antes/blinds/stacks {got}, a fresh game with the explicit '
                f'lists gives {exp} (fields differing: {d})', payload)
            return
        res.sigs.add(sig('reuse', game, repr(amap), repr(bmap), n))


def check_operation_card_forms(res, rng):
    """The same card handed to an operation as text, as a Card object, in a
    list / tuple / one-shot iterator -- known and unknown (??) cards -- must
    do the same thing."""
    seed = rng.getrandbits(32)
    n = rng.randint(2, 4)

    def fresh():
        load.set_shuffle_key(seed)
        return pk_games.NoLimitTexasHoldem.create_state(
            AUTOS[:3], True, 0, (1, 2), 2, [50] * n, n)
    base = fresh()
    dealable = list(base.get_dealable_cards())
    known = rng.choice(dealable)
    unknown = Card(Rank.UNKNOWN, Suit.UNKNOWN)
    for card in (known, unknown):
        for opname_, prep in (('deal_hole', 0), ('burn_card', 1),
                              ('deal_board', 2)):
            def prepared():
                st = fresh()
                if prep >= 1:
                    while st.can_deal_hole():
                        st.deal_hole()
                    while st.actor_index is not None:
                        st.check_or_call()
                if prep >= 2:
                    st.burn_card()
                return st
            ref = prepared()
            try:
                getattr(ref, opname_)(repr(card))
            except ValueError:
                continue
            fref = twin.full_fingerprint(ref)
            forms = [('Card', card), ('list', [card]), ('tuple', (card,)),
                     ('iterator', iter([card])), ('text+space',
                                                  f' {card!r} ')]
            for kind, form in forms:
                st = prepared()
                res.counters['operation_card_forms'] += 1
                payload = {'kind': 'opform', 'op': opname_, 'card': repr(card),
                           'form': kind}
                try:
                    getattr(st, opname_)(form)
                except Exception as exc:   # noqa: BLE001
                    res.violation(
                        f'{opname_}({kind} of {card!r}) raised '
                        f'{type(exc).__name__}: {exc}; the text form is '
                        f'accepted', payload)
                    continue
                d = twin.diff(fref, twin.full_fingerprint(st))
                if d:
                    res.violation(
                        f'{opname_}({kind} of {card!r}) leaves a state that '
                        f'differs from {opname_}({repr(card)!r}) in {d}',
                        payload)
                res.sigs.add(sig('opform', opname_, kind, bool(card)))


def check_hand_card_forms(res, rng):
    """Hole and board cards given to a hand type as text, list, tuple,
    one-shot iterator or generator denote the same cards: same hand."""
    deck = list(Deck.STANDARD)
    for clsname, nh, nb in (('StandardHighHand', 2, 5),
                            ('GreekHoldemHand', 2, 5),
                            ('OmahaHoldemHand', 4, 5),
                            ('OmahaEightOrBetterLowHand', 4, 5),
                            ('StandardLowHand', 5, 0),
                            ('BadugiHand', 4, 0)):
        cls = getattr(pk_hands, clsname)
        cards = rng.sample(deck, nh + nb)
        hole, board = cards[:nh], cards[nh:]
        try:
            ref = cls.from_game_or_none(tuple(hole), tuple(board))
        except Exception as exc:   # noqa: BLE001
            res.violation(f'{clsname}.from_game_or_none raised '
                          f'{type(exc).__name__}', {'kind': 'handform'})
            continue
        th = ''.join(map(repr, hole))
        tb = ''.join(map(repr, board))
        for kind in ('text', 'list', 'iterator', 'generator', 'parse',
                     'filter'):
            def mk(cs, t):
                return {'text': t, 'list': list(cs), 'iterator': iter(cs),
                        'generator': (c for c in cs),
                        'parse': Card.parse(t),
                        'filter': filter(None, list(cs))}[kind]
            res.counters['hand_card_forms'] += 1
            try:
                got = cls.from_game_or_none(mk(hole, th), mk(board, tb))
            except Exception as exc:   # noqa: BLE001
                res.violation(
                    f'{clsname}.from_game_or_none({kind} of {th}, {kind} of '
                    f'{tb}) raised {type(exc).__name__}: {exc}',
                    {'kind': 'handform', 'cls': clsname, 'hole': th,
                     'board': tb, 'form': kind})
                continue
            if (got is None) != (ref is None) or (
                    got is not None and (got != ref or sorted(
                        map(repr, got.cards)) != sorted(
                            map(repr, ref.cards)))):
                res.violation(
                    f'{clsname}.from_game_or_none({kind} of {th}, {kind} of '
                    f'{tb}) = {got!r}, the tuple form gives {ref!r}',
                    {'kind': 'handform', 'cls': clsname, 'hole': th,
                     'board': tb, 'form': kind})
            res.sigs.add(sig('handform', clsname, kind))


def check_cards(res, rng, exhaustive):
    ranks = list(Rank)
    suits = list(Suit)
    if exhaustive:
        for r in ranks:
            for s in suits:
                c = Card(r, s)
                res.counters['card_round_trips'] += 1
                try:
                    back = tuple(Card.parse(repr(c)))
                except Exception as exc:   # noqa: BLE001
                    res.violation(f'Card.parse({repr(c)!r}) raised '
                                  f'{type(exc).__name__}',
                                  {'kind': 'card', 'text': repr(c)})
                    continue
                if back != (c,):
                    res.violation(
                        f'repr/parse round trip: {c.rank!r}{c.suit!r} -> '
                        f'{repr(c)!r} -> {back}',
                        {'kind': 'card', 'text': repr(c)})
                if bool(c) != (r != Rank.UNKNOWN and s != Suit.UNKNOWN):
                    res.violation(f'bool({c!r}) = {bool(c)}',
                                  {'kind': 'card', 'text': repr(c)})
                res.sigs.add(sig('card', repr(c)))
    k = rng.randint(1, 7)
    cards = tuple(Card(rng.choice(ranks), rng.choice(suits))
                  for _ in range(k))
    text = ''.join(map(repr, cards))
    forms = {
        'objects-tuple': cards, 'objects-list': list(cards),
        'generator': (c for c in cards), 'string': text,
        'string-spaces': ' '.join(map(repr, cards)),
        'string-commas': ','.join(map(repr, cards)),
        'string-comma-space': ', '.join(map(repr, cards)),
        'string-10': text.replace('T', '10'),
        'string-mixed': ' '.join(
            repr(c) + (',' if rng.random() < 0.5 else '') for c in cards),
    }
    if k == 1:
        forms['single-object'] = cards[0]
    for kind, form in forms.items():
        res.counters['card_text_forms'] += 1
        try:
            got = Card.clean(form)
        except Exception as exc:   # noqa: BLE001
            res.violation(f'Card.clean({kind}: {text}) raised '
                          f'{type(exc).__name__}: {exc}',
                          {'kind': 'cardform', 'text': text, 'form': kind})
            continue
        if tuple(got) != cards:
            res.violation(f'Card.clean({kind}: {text!r}) = {got}, expected '
                          f'{cards}',
                          {'kind': 'cardform', 'text': text, 'form': kind})
        res.sigs.add(sig('cardform', kind, k))
    # several raw strings to parse
    got = tuple(Card.parse(*[repr(c) for c in cards]))
    if got != cards:
        res.violation(f'Card.parse(*{[repr(c) for c in cards]}) = {got}',
                      {'kind': 'cardform', 'text': text, 'form': 'varargs'})
    for bad in ('A', 'Asx', 'Zs', 'Ax', '1s'):
        try:
            list(Card.parse(bad))
        except ValueError:
            continue
        except Exception as exc:   # noqa: BLE001
            res.violation(f'Card.parse({bad!r}) raised '
                          f'{type(exc).__name__}',
                          {'kind': 'cardbad', 'text': bad})
            continue
        res.violation(f'Card.parse({bad!r}) accepted',
                      {'kind': 'cardbad', 'text': bad})


def base_kwargs():
    st = (Street(False, (False, False), 0, False, Opening.POSITION, 2, None),
          Street(True, (), 3, False, Opening.POSITION, 2, None))
    return dict(
        automations=(), deck=Deck.STANDARD,
        hand_types=(pk_hands.StandardHighHand,), streets=st,
        betting_structure=BettingStructure.NO_LIMIT,
        ante_trimming_status=True, raw_antes=0,
        raw_blinds_or_straddles=(1, 2), bring_in=0,
        raw_starting_stacks=(20, 20, 20), player_count=3)


def build(kw):
    kw = dict(kw)
    pos = [kw.pop(k) for k in (
        'automations', 'deck', 'hand_types', 'streets', 'betting_structure',
        'ante_trimming_status', 'raw_antes', 'raw_blinds_or_straddles',
        'bring_in', 'raw_starting_stacks', 'player_count')]
    return State(*pos, **kw)


INVALID = [
    ('negative ante', dict(raw_antes=(1, -1, 0)), dict(raw_antes=(1, 1, 0))),
    ('negative uniform ante', dict(raw_antes=-1), dict(raw_antes=1)),
    ('zero stack', dict(raw_starting_stacks=(20, 0, 20)),
     dict(raw_starting_stacks=(20, 1, 20))),
    ('negative stack', dict(raw_starting_stacks=(20, -5, 20)),
     dict(raw_starting_stacks=(20, 5, 20))),
    ('missing stack entry', dict(raw_starting_stacks=(20, 20)),
     dict(raw_starting_stacks=(20, 20, 1))),
    ('blinds with a bring-in', dict(bring_in=1),
     dict(bring_in=1, raw_blinds_or_straddles=0, raw_antes=1)),
    ('posts with a bring-in',
     dict(bring_in=1, raw_blinds_or_straddles=(0, 0, -2)),
     dict(bring_in=0, raw_blinds_or_straddles=(1, 2, -2))),
    ('blind and post cancelling out, with a bring-in',
     dict(bring_in=1, raw_blinds_or_straddles=(0, 2, -2)),
     dict(bring_in=0, raw_blinds_or_straddles=(0, 2, -2))),
    ('blind and post cancelling out (mapping), with a bring-in',
     dict(bring_in=1, raw_blinds_or_straddles={1: 2, -1: -2}),
     dict(bring_in=0, raw_blinds_or_straddles={1: 2, -1: -2})),
    ('straddle only, with a bring-in',
     dict(bring_in=1, raw_blinds_or_straddles={2: 4}),
     dict(bring_in=0, raw_blinds_or_straddles={2: 4})),
    ('no forced bet at all', dict(raw_blinds_or_straddles=0),
     dict(raw_blinds_or_straddles=0, raw_antes=1)),
    ('no forced bet (empty mapping)', dict(raw_blinds_or_straddles={}),
     dict(raw_blinds_or_straddles={1: 2})),
    ('one player', dict(player_count=1, raw_starting_stacks=(20,),
                        raw_blinds_or_straddles=(1,)),
     dict(player_count=2, raw_starting_stacks=(20, 20))),
    ('zero players', dict(player_count=0, raw_starting_stacks=(),
                          raw_blinds_or_straddles=()),
     dict(player_count=2, raw_starting_stacks=(20, 20))),
    ('bring-in not below the minimum bet',
     dict(bring_in=2, raw_blinds_or_straddles=0, raw_antes=1),
     dict(bring_in=1, raw_blinds_or_straddles=0, raw_antes=1)),
    ('negative bring-in', dict(bring_in=-1), dict(bring_in=0)),
    ('no starting board', dict(starting_board_count=0),
     dict(starting_board_count=1)),
    ('negative board count', dict(starting_board_count=-1),
     dict(starting_board_count=2)),
    ('no streets', dict(streets=()), dict()),
    ('first street deals no hole cards',
     dict(streets=(Street(True, (), 3, False, Opening.POSITION, 2, None),)),
     dict()),
]


def check_invalid(res):
    for name, bad, good in INVALID:
        kw = base_kwargs()
        kw.update(bad)
        try:
            build(kw)
        except ValueError:
            res.counters['invalid_layouts_refused'] += 1
        except Exception as exc:   # noqa: BLE001
            res.violation(f'invalid layout "{name}" raised '
                          f'{type(exc).__name__}: {exc} instead of '
                          f'ValueError', {'kind': 'invalid', 'name': name})
        else:
            res.violation(f'invalid layout "{name}" ({bad}) was accepted by '
                          f'the constructor', {'kind': 'invalid',
                                               'name': name})
        kw = base_kwargs()
        kw.update(good)
        try:
            build(kw)
            res.counters['valid_neighbours_accepted'] += 1
        except Exception as exc:   # noqa: BLE001
            res.violation(f'valid neighbour of "{name}" ({good}) refused: '
                          f'{type(exc).__name__}: {exc}',
                          {'kind': 'invalid', 'name': name})
        res.sigs.add(sig('invalid', name))
    # the same through the game classes
    G = pk_games.NoLimitTexasHoldem
    for name, args in (
            ('game: negative ante', ((), True, -1, (1, 2), 2, (20, 20), 2)),
            ('game: zero stack', ((), True, 0, (1, 2), 2, (20, 0), 2)),
            ('game: nothing forced', ((), True, 0, 0, 2, (20, 20), 2)),
            ('game: one player', ((), True, 0, (1, 2), 2, (20,), 1))):
        try:
            G.create_state(*args)
        except ValueError:
            res.counters['invalid_layouts_refused'] += 1
        except Exception as exc:   # noqa: BLE001
            res.violation(f'{name}: {type(exc).__name__}',
                          {'kind': 'invalid', 'name': name})
        else:
            res.violation(f'{name}: accepted',
                          {'kind': 'invalid', 'name': name})
    S = pk_games.FixedLimitSevenCardStud
    try:
        S.create_state((), True, 1, 4, 4, 8, (20, 20), 2)
    except ValueError:
        res.counters['invalid_layouts_refused'] += 1
    else:
        res.violation('stud: bring-in equal to the small bet accepted',
                      {'kind': 'invalid', 'name': 'stud bring-in'})


def close(a, b, scale):
    if isinstance(a, (int, Fraction)) and isinstance(b, (int, Fraction)):
        return a == b
    eps = 1e-15 if isinstance(a, float) or isinstance(b, float) \
        else Decimal('1e-26')
    return abs(a - b) <= eps * 4 * max(1, abs(scale))


def check_helpers(res, rng, count):
    for _ in range(count):
        t = rng.choice(['int', 'int', 'Fraction', 'float', 'Decimal'])
        d = rng.randint(1, 9)
        if t == 'int':
            a = rng.choice([0, 1, 2, 3, 5, 7, rng.randint(0, 10 ** 6)])
        elif t == 'Fraction':
            a = Fraction(rng.randint(0, 10 ** 4), rng.randint(1, 40))
        elif t == 'float':
            a = rng.randint(0, 10 ** 5) / 2 ** rng.randint(0, 6)
        else:
            a = Decimal(rng.randint(0, 10 ** 6)) / (10 ** rng.randint(0, 3))
        q, r = pk_divmod(a, d)
        res.counters['divmod_postconditions'] += 1
        # binary-exact floats and finite decimals: the remainder absorbs the
        # rounding of the quotient, so the parts recompose EXACTLY (measured:
        # 0 exceptions in 4*10^5 sweeps on the pinned tree); a tolerance
        # would hide a remainder that is off by one unit in the last place
        ok = q * d + r == a
        if t == 'int':
            ok = ok and 0 <= r < d and isinstance(q, int)
        if not ok:
            res.violation(f'divmod({a!r}, {d}) = ({q!r}, {r!r}) does not '
                          f'recompose', {'kind': 'divmod', 'a': repr(a),
                                         'd': d})
        pct = rng.choice([0, 0.01, 0.025, 0.05, 0.1, 0.5, 1])
        cap = rng.choice([math.inf, math.inf, 0, 1, 3, 100])
        if t == 'Fraction':
            pct = Fraction(pct).limit_denominator(1000)
        if t == 'Decimal':
            pct = Decimal(str(pct))
            cap = Decimal(cap) if cap != math.inf else Decimal('Infinity')
        try:
            x, y = pk_rake(a, None, percentage=pct, cap=cap)
        except Exception as exc:   # noqa: BLE001
            res.violation(f'rake({a!r}, percentage={pct!r}, cap={cap!r}) '
                          f'raised {type(exc).__name__}: {exc}',
                          {'kind': 'rake', 'a': repr(a)})
            continue
        res.counters['rake_postconditions'] += 1
        ok = close(x + y, a, a) and x >= 0 and y >= 0 and x <= cap
        if t == 'int' and pct in (0, 1):
            ok = ok and x == (a if pct == 1 and cap >= a else min(cap, 0)
                              if pct == 0 else x)
        if not ok:
            res.violation(
                f'rake({a!r}, percentage={pct!r}, cap={cap!r}) = '
                f'({x!r}, {y!r}): parts do not add up / out of range',
                {'kind': 'rake', 'a': repr(a), 'pct': repr(pct),
                 'cap': repr(cap)})
        res.sigs.add(sig('helper', t, d, pct, cap, a))
    for bad in (-0.1, 1.5):
        try:
            pk_rake(10, None, percentage=bad)
        except ValueError:
            pass
        else:
            res.violation(f'rake percentage {bad} accepted',
                          {'kind': 'rake', 'a': '10'})


def run_shard(seed, shard, of, tier, deadline):
    res = Shard()
    rng = random.Random(shard_seed(seed, PROP, shard))
    n = max(1, CASES[tier] // of)
    check_invalid(res)
    check_cards(res, rng, exhaustive=True)
    for k in range(n):
        if time.time() > deadline:
            res.truncated = True
            break
        check_representations(res, rng)
        check_cards(res, rng, exhaustive=False)
        check_helpers(res, rng, 8)
        if k % 5 == 0:
            check_game_reuse(res, rng)
        if k % 25 == 0:
            check_operation_card_forms(res, rng)
        if k % 10 == 0:
            check_hand_card_forms(res, rng)
        if k < 1:
            res.add_sample({'kinds': 'representations, cards, invalid '
                            'layouts, helper sweeps'}, limit=1)
    res.evaluations = sum(res.counters[k] for k in REQUIRED)
    return res


def replay(payload):
    res = Shard()
    rng = random.Random(1)
    k = payload.get('kind')
    if k == 'invalid':
        check_invalid(res)
    elif k in ('card', 'cardform', 'cardbad'):
        check_cards(res, rng, exhaustive=True)
    elif k in ('divmod', 'rake'):
        check_helpers(res, rng, 2000)
    else:
        for _ in range(400):
            check_representations(res, rng)
    return [{'what': v['what'], 'kf': None} for v in res.violations]
