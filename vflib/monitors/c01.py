"""C01 -- chips are conserved (invariant at the State._update hook)."""
from __future__ import annotations

from decimal import Decimal
from fractions import Fraction

from vflib import gen, driver, hist
from vflib.driver import Monitor

PROP = 'C01'
RULE = (
    '(i) bounded-exhaustive: the COMPLETE decision trees of small games '
    '(2-3 players, stacks of 1-8 chips, hold\'em NL/FL, PLO, Kuhn, razz, '
    'single draw; every fold/call/raise amount/discard/show-or-muck '
    'choice) are walked under the same monitors (vflib.explore); (ii) '
    'seeded random configurations (12 predefined games via games.py + custom '
    'street lists; 2-9 players; ante/blind/straddle/post/bring-in layouts '
    'incl. stacks shorter than the forced bets; trimming on/off; 1-3 boards; '
    'rake/divmod functions; int, Fraction, binary-exact float and Decimal '
    'chips; any automation subset; both modes) x random policy-driven legal '
    'histories; the chip identity, non-negativity and (at the end) the '
    'terminal zero-sum conditions are evaluated after EVERY operation through '
    'the State._update hook. A hand is non-trivial when the monitor saw a '
    'refund of an uncalled bet, >= 2 pots, a non-zero division remainder or '
    'a non-zero rake; distinct = distinct (game, players, automation subset, '
    'mode, boards, full operation-kind sequence) among non-trivial hands.')
ASSUMPTIONS = [
    'the State._update wrapper sees every operation (checked per hand: hook '
    'events == len(state.operations))',
    'float/Decimal chips: identity checked within (ops+10)*eps*total',
    'custom rake/divmod callables used by the generator are themselves '
    'correct (their postconditions are asserted on every call)',
]
CASES = {'quick': 24000, 'thorough': 260000}
TIME = {'quick': 70, 'thorough': 540}
MIN_NONTRIVIAL = {'quick': 1000, 'thorough': 8000}
NO_ASSERT_SHARDS = True     # odd shards: pokerkit's asserts compiled out
REQUIRED = ('refunds', 'side_pots', 'odd_chip_remainders', 'rake_taken',
            'terminal_states_checked', 'short_forced_bets',
            'trees_completed', 'explored_nodes',
            'forks')

CUSTOMS = ('kuhn', 'draw5', 'stud5', 'greek', 'courchevel', 'holdem8',
           'plo8', 'badugi1', 'razzdraw', 'random', 'openstud', 'drawboard')


def tol_of(ctx, total):
    ct = ctx.cfg['chip_type']
    if ct in ('int', 'Fraction'):
        return 0
    eps = 2.3e-16 if ct == 'float' else Decimal('1e-26')
    return (ctx.nevents + 10) * eps * abs(total)


class ChipMonitor(Monitor):

    def on_begin(self, ctx):
        self.calls = []
        ctx.data['c01'] = self

        def rec(kind, args, result):
            self.calls.append((kind, args, result))
            self.check_call(ctx, kind, args, result)
        gen.CALL_RECORDER[0] = rec
        self.prev_bets = None

    def check_call(self, ctx, kind, args, result):
        if kind == 'divmod':
            a, d = args
            q, r = result
            ok = q * d + r == a
            if not ok and ctx.cfg['chip_type'] in ('float', 'Decimal'):
                ok = abs(q * d + r - a) <= tol_of(ctx, a)
            if not ok:
                ctx.violate(f'divmod({a},{d}) -> ({q},{r}) does not add up')
            if r:
                ctx.counters['odd_chip_remainders'] += 1
                ctx.tag('odd-chip')
        else:
            a = args[0]
            x, y = result
            ok = x + y == a and x >= 0 and y >= 0
            if not ok and ctx.cfg['chip_type'] in ('float', 'Decimal'):
                t = tol_of(ctx, a)
                ok = abs(x + y - a) <= t and x >= -t and y >= -t
            if not ok:
                ctx.violate(f'rake({a}) -> ({x},{y}) does not add up')
            if x:
                ctx.counters['rake_taken'] += 1
                ctx.tag('rake')

    def check_state(self, ctx, state, where):
        total = sum(state.starting_stacks)
        tol = tol_of(ctx, total)
        try:
            pots = list(state.pots)
        except Exception as exc:   # noqa: BLE001
            ctx.violate(f'{where}: State.pots raised {type(exc).__name__}: '
                        f'{exc}')
            return
        held = sum(state.stacks) + sum(state.bets) + sum(
            p.raked_amount + p.unraked_amount for p in pots)
        if abs(held - total) > tol:
            ctx.violate(
                f'{where}: stacks {state.stacks} + bets {state.bets} + pots '
                f'{[(p.raked_amount, p.unraked_amount) for p in pots]} = '
                f'{held} != starting total {total}')
        for name, vec in (('stack', state.stacks), ('bet', state.bets)):
            for i, v in enumerate(vec):
                if v < -tol:
                    ctx.violate(f'{where}: negative {name} {v} of player {i}')
        for k, p in enumerate(pots):
            if p.raked_amount < -tol or p.unraked_amount < -tol:
                ctx.violate(f'{where}: negative pot {k}: {p}')
        if len(pots) >= 2:
            if 'side-pots' not in ctx.tags:
                ctx.counters['side_pots'] += 1
            ctx.tag('side-pots')
        if len(pots) >= 3:
            ctx.tag('3+pots')
        ctx.counters['states_checked'] += 1

    def on_op(self, ctx, state, operation):
        kind = type(operation).__name__
        if kind == 'BetCollection' and self.prev_bets is not None:
            if sum(operation.bets) != sum(self.prev_bets):
                ctx.counters['refunds'] += 1
                ctx.tag('refund')
        if kind in ('AntePosting', 'BlindOrStraddlePosting',
                    'BringInPosting'):
            i = operation.player_index
            if not state.stacks[i]:
                ctx.counters['short_forced_bets'] += 1
                ctx.tag('short-forced-bet')
        self.check_state(ctx, state, f'after op #{ctx.nevents} {kind}')
        self.prev_bets = list(state.bets)

    def on_created(self, ctx, state):
        self.check_state(ctx, state, 'after construction')
        self.prev_bets = list(state.bets)

    def on_end(self, ctx, state):
        gen.CALL_RECORDER[0] = None
        if ctx.nevents != len(state.operations):
            ctx.violate(f'hook saw {ctx.nevents} operations, log has '
                        f'{len(state.operations)}')
        if state.status or 'op_exc' in ctx.data:
            return
        total = sum(state.starting_stacks)
        tol = tol_of(ctx, total)
        ctx.counters['terminal_states_checked'] += 1
        if any(abs(b) > tol for b in state.bets):
            ctx.violate(f'terminal: bets left on the table {state.bets}')
        pots = list(state.pots)
        left = [p.unraked_amount for p in pots]
        if any(abs(x) > tol for x in left):
            ctx.violate(f'terminal: pot chips never pushed {left} '
                        f'(statuses {state.statuses})')
        for i in state.player_indices:
            d = state.stacks[i] - state.starting_stacks[i]
            if abs(state.payoffs[i] - d) > tol:
                ctx.violate(f'terminal: payoff {state.payoffs[i]} of player '
                            f'{i} != stack - starting stack = {d}')
        raked = sum(p.raked_amount for p in pots)
        if abs(sum(state.payoffs) + raked) > tol:
            ctx.violate(f'terminal: payoffs {state.payoffs} sum to '
                        f'{sum(state.payoffs)} != -rake {-raked}')
        if ctx.cfg['rake'] is None and abs(sum(state.payoffs)) > tol:
            ctx.violate(f'terminal: payoffs {state.payoffs} not zero-sum '
                        f'without rake')


def make_monitors():
    return [driver.Observer(), driver.Interleaver(), ChipMonitor()]


def gen_kwargs(rng):
    return dict(
        customs=CUSTOMS, p_custom=0.25,
        chip_types=('int', 'int', 'int', 'int', 'Fraction', 'float',
                    'Decimal'),
        max_boards=3, rake_ok=True, divmod_ok=True, strict_p=0.92,
        auto_styles=('any', 'any', 'all', 'none', 'typical', 'single-off'),
    )


def pol_tweak(pol, cfg, rng):
    if rng.random() < 0.4:
        pol['fork_p'] = 0.03     # continue on a deepcopy mid-hand
    if rng.random() < 0.04:
        pol['muck'] = 'any'
        pol['muck_p'] = rng.choice([0.1, 0.6, 0.9])


def nontrivial(ctx):
    return bool(ctx.tags & {'refund', 'side-pots', 'odd-chip', 'rake'})


def classify(ctx, v):
    st = ctx.state
    if (v['what'].startswith('terminal:') and st is not None
            and ('pot chips never pushed' in v['what']
                 or 'payoffs' in v['what'])
            and not any(st.statuses)
            and not any(type(o).__name__ == 'ChipsPushing'
                        for o in st.operations)
            and any(c[0] == 'show_or_muck_hole_cards' and c[1]
                    and c[1][0] is False for c in ctx.script)):
        return 'all_live_players_mucked'
    return None


def run_shard(seed, shard, of, tier, deadline):
    return hist.run_history_shard(
        PROP, seed, shard, of, tier, deadline, cases=CASES,
        explore_s={'quick': 8, 'thorough': 100},
        explore_nodes={'quick': 2500, 'thorough': 40000},
        gen_kwargs=gen_kwargs, make_monitors=make_monitors,
        nontrivial=nontrivial, classify=classify, pol_tweak=pol_tweak)


def replay(payload):
    return hist.replay_history(payload, make_monitors, PROP, classify)
