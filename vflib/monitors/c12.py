"""C12 -- automatic mucking and hand killing never cost a player chips
(twin run where everybody tables + reference payout with everybody tabled)."""
from __future__ import annotations

from vflib import gen, driver, hist, twin
from vflib.driver import Monitor, opname
from vflib.ref import payout
from vflib.ref import handrank as hr

PROP = 'C12'
RULE = (
    '(i) bounded-exhaustive: the COMPLETE decision trees of small games '
    '(2-3 players, stacks of 1-8 chips, hold\'em NL/FL, PLO, Kuhn, razz, '
    'single draw; every fold/call/raise amount/discard/show-or-muck '
    'choice) are walked under the same monitors (vflib.explore); (ii) '
    'seeded random hands driven to showdowns (side pots, split pots, hi-lo, '
    '1-3 boards, run-outs, ties, players eligible for some pots only, all-in '
    'before the river) in run A with showing/mucking and hand killing '
    'AUTOMATED. Oracles: (1) the C02 payout model evaluated on run A with '
    'EVERY player who reached the showdown counted as tabled -- a hand that '
    'was mucked or killed although it would win any part of any pot makes a '
    'winner fall below his share; (2) run T: same deck and decisions, '
    'showing manual, every remaining player shows his full hand in the '
    'engine\'s order -- final payoffs must equal run A\'s; (3) every player '
    'with a winning hand on some board/hand type/pot must have SHOWN in A '
    'and all of his cards; (4) tournament mode: at every showdown decision '
    'of run T a partial show and (all-in) a muck are refused and a default '
    'show shows every card. Non-trivial = a showdown with >= 2 live hands '
    'and at least one automatic muck or kill; distinct by (game, players, '
    'mode, boards, operation-kind sequence).')
ASSUMPTIONS = [
    'hand strength from the independent evaluator of C04/C05 '
    '(vflib.ref.handrank)',
    'payout constraints as in C02 (the model never reads State.pots)',
]
CASES = {'quick': 11000, 'thorough': 150000}
TIME = {'quick': 70, 'thorough': 560}
MIN_NONTRIVIAL = {'quick': 500, 'thorough': 5000}
REQUIRED = ('showdowns', 'auto_mucks', 'auto_kills', 'twin_runs_compared',
            'winners_checked_shown', 'tournament_partial_show_probes',
            'side_pot_showdowns', 'multi_board_showdowns', 'hilo_showdowns',
            'allin_showdowns',
            'observer_query_points',
            'trees_completed', 'explored_nodes',
            'forks',
            'final_showdowns_judged', 'out_of_turn_shows_in_twin')

CUSTOMS = ('holdem8', 'plo8', 'greek', 'courchevel', 'draw5', 'badugi1',
           'stud5', 'razzdraw', 'random')
SHOW = 'HOLE_CARDS_SHOWING_OR_MUCKING'
KILL = 'HAND_KILLING'


def strength_of(ht, hole, board):
    """Strength from the independent evaluator of C04/C05 (falls back to
    the engine's for hand types the reference does not know)."""
    if ht.__name__ in hr.CLASSES:
        return hr.best_strength(ht.__name__, [c for c in hole if c], board)
    return ht.from_game_or_none(hole, board)


class ShowdownMonitor(Monitor):

    def on_begin(self, ctx):
        self.prev = None           # (statuses, hole cards) after previous op
        self.at_showdown = None    # captured before the first show/muck/kill
        self.mucked = []
        self.killed = []
        self.shown = {}

    def _snap(self, s):
        return (list(s.statuses), [list(h) for h in s.hole_cards])

    def on_created(self, ctx, s):
        self.prev = self._snap(s)
        self.last_hole = [list(h) for h in s.hole_cards]

    def on_op(self, ctx, s, op):
        k = type(op).__name__
        if k in ('HoleCardsShowingOrMucking', 'HandKilling') and s.status:
            if self.at_showdown is None:
                self.at_showdown = self.prev or self._snap(s)
            if k == 'HandKilling':
                self.killed.append(op.player_index)
                ctx.counters['auto_kills'] += 1
            elif not op.hole_cards:
                self.mucked.append(op.player_index)
                ctx.counters['auto_mucks'] += 1
            else:
                self.shown[op.player_index] = op.hole_cards
        self.prev = self._snap(s)
        if getattr(self, 'last_hole', None) is None:
            self.last_hole = [list(h) for h in s.hole_cards]
        for i, h in enumerate(s.hole_cards):
            if h:
                self.last_hole[i] = list(h)

    def on_end(self, ctx, a):
        if ctx.cfg.get('c12_manual'):
            ctx.tag('manual-class')
            return      # judged by the final-showdown rule only
        if a.status or 'op_exc' in ctx.data or self.at_showdown is None:
            return
        live0 = self.at_showdown[0]
        hole0 = self.last_hole
        if sum(live0) < 2:
            return
        if any(not c for i, h in enumerate(hole0) if live0[i] for c in h):
            return
        ctx.counters['showdowns'] += 1
        ctx.tag('showdown')
        if self.mucked or self.killed:
            ctx.tag('auto-out')
        if a.all_in_status:
            ctx.counters['allin_showdowns'] += 1
        if a.board_count > 1:
            ctx.counters['multi_board_showdowns'] += 1
        if len(a.hand_types) > 1:
            ctx.counters['hilo_showdowns'] += 1
        # (1) reference with everybody tabled: model pots and the floor
        # share every winner is entitled to
        contrib, antes = payout.contributions_from_log(a)
        pots = payout.ref_pots(a, contrib, antes, live0)
        if len(pots) > 1:
            ctx.counters['side_pot_showdowns'] += 1
        floor = [0] * a.player_count
        if ctx.cfg['rake'] is None:
            for p, (amt, elig) in enumerate(pots):
                per_board = payout._fl(amt, a.board_count)
                for b in range(a.board_count):
                    board = tuple(a.get_board_cards(b))
                    W = {}
                    for t, ht in enumerate(a.hand_types):
                        hands = {i: strength_of(ht, hole0[i], board)
                                 for i in elig}
                        known = [h for h in hands.values() if h is not None]
                        if known:
                            best = max(known)
                            W[t] = [i for i in elig if hands[i] is not None
                                    and hands[i] == best]
                    if not W:
                        continue
                    share = payout._fl(per_board, len(W))
                    for w in W.values():
                        for i in w:
                            floor[i] += payout._fl(share, len(w))
            got = [sum(o.amounts[i] for o in a.operations
                       if type(o).__name__ == 'ChipsPushing')
                   for i in range(a.player_count)]
            for i in range(a.player_count):
                if got[i] < floor[i]:
                    ctx.violate(
                        f'with every hand tabled player {i} is entitled to '
                        f'at least {floor[i]} but was pushed {got[i]} '
                        f'(model pots {pots}, auto-mucked {self.mucked}, '
                        f'auto-killed {self.killed})')
        # (3) winners must have shown all their cards
        nb = a.board_count
        for p, (amt, elig) in enumerate(pots):
            for b in range(nb):
                board = tuple(a.get_board_cards(b))
                for t, ht in enumerate(a.hand_types):
                    hands = {i: strength_of(ht, hole0[i], board)
                             for i in elig}
                    known = [h for h in hands.values() if h is not None]
                    if not known:
                        continue
                    best = max(known)
                    for i in elig:
                        if hands[i] is not None and hands[i] == best:
                            ctx.counters['winners_checked_shown'] += 1
                            if i in self.mucked or i in self.killed:
                                ctx.violate(
                                    f'player {i} holds the best hand '
                                    f'{hands[i]!r} for pot {p} board {b} '
                                    f'type {t} but was automatically '
                                    f'{"mucked" if i in self.mucked else "killed"}')
                            elif i in self.shown and any(
                                    not c for c in self.shown[i]):
                                ctx.violate(f'winner {i} did not show all '
                                            f'cards: {self.shown[i]}')
        if ctx.violations:
            return
        # (2) twin T: everybody tables
        cfg = ctx.cfg
        autos = [x for x in cfg['autos'] if x != SHOW]
        try:
            t = twin.fresh_state(cfg, autos=[gen.Automation[x]
                                             for x in autos])
            tournament = cfg['mode'] == 'TOURNAMENT'
            import random as _random
            order_rng = _random.Random(cfg['seed'] ^ 0x0dd)

            def drain():
                guard = 0
                while t.can_show_or_muck_hole_cards() and guard < 50:
                    guard += 1
                    i = t.showdown_index
                    if order_rng.random() < 0.5:
                        # any player still to show may do so out of turn
                        i = order_rng.choice(list(t.showdown_indices))
                        ctx.counters['out_of_turn_shows_in_twin'] += 1
                    if tournament and len(t.hole_cards[i]) > 1:
                        part = tuple(t.hole_cards[i][:1])
                        ctx.counters['tournament_partial_show_probes'] += 1
                        if t.can_show_or_muck_hole_cards(part, i):
                            ctx.violate(
                                f'tournament mode: partial show {part} by '
                                f'player {i} accepted (all_in '
                                f'{t.all_in_status}, street '
                                f'{t.street_index})')
                        if t.all_in_status and \
                                t.can_show_or_muck_hole_cards(False, i):
                            ctx.violate(f'tournament mode: muck by player '
                                        f'{i} accepted at an all-in '
                                        f'showdown')
                    if tournament and t.all_in_status:
                        held = len(t.hole_cards[i])
                        op = t.show_or_muck_hole_cards(None, i)
                        if len(op.hole_cards) != held or any(
                                not c for c in op.hole_cards):
                            ctx.violate(f'tournament all-in: default show '
                                        f'of player {i} showed '
                                        f'{op.hole_cards}')
                    else:
                        t.show_or_muck_hole_cards(True, i)
            drain()
            for name, args, *_ in ctx.script:
                if name in ('show_or_muck_hole_cards', '__fork__'):
                    continue
                getattr(t, name)(*driver.decode_args(args))
                drain()
            ctx.counters['twin_runs_compared'] += 1
            if t.status:
                ctx.violate('the everybody-tables twin did not finish with '
                            'the same decisions')
            elif list(t.payoffs) != list(a.payoffs):
                ctx.violate(
                    f'payoffs with automatic show/muck/kill {a.payoffs} != '
                    f'payoffs when every remaining player tables his hand '
                    f'{t.payoffs} (auto-mucked {self.mucked}, auto-killed '
                    f'{self.killed})')
        except Exception as exc:   # noqa: BLE001
            ctx.violate(f'the everybody-tables twin raised '
                        f'{type(exc).__name__}: {exc}')


def make_monitors():
    return [driver.Observer(), driver.FinalShowdownRule(), ShowdownMonitor()]


def gen_kwargs(rng):
    if rng.random() < 0.06:
        # 8-handed stud played to seventh street: the last card is a shared
        # community card (deck exhausted) and decides some showdowns
        return dict(games=gen.STUD_GAMES, customs=(), chip_types=('int',),
                    strict_p=1.0, auto_styles=('any', 'all', 'typical'),
                    min_n=8, hostile_chips=False)
    return dict(
        customs=CUSTOMS, p_custom=0.3,
        games=gen.ALL_GAMES + gen.HILO_GAMES * 3,
        chip_types=('int', 'int', 'Fraction'),
        max_boards=3, rake_ok=True, divmod_ok=False, strict_p=1.0,
        auto_styles=('any', 'all', 'typical'),
    )


def cfg_filter(cfg, rng):
    if rng.random() < 0.12:
        # manual class: players table part of their hand themselves (cash
        # game); judged by the final-showdown rule
        cfg['c12_manual'] = True
        cfg['mode'] = 'CASH_GAME'
        cfg['autos'] = [a for a in cfg['autos'] if a != SHOW]
        return cfg
    for a in (SHOW, KILL):
        if a not in cfg['autos']:
            cfg['autos'].append(a)
    return cfg


def pol_tweak(pol, cfg, rng):
    if cfg.get('c12_manual'):
        pol['partial_show'] = True
        pol['empty_show'] = True
        pol['policy'] = rng.choice(['passive', 'allin', 'allin'])
    if rng.random() < 0.25:
        # rigged deals: made-hand boards and hole cards from their
        # neighbourhood (playing the board, counterfeits, exact ties)
        pol['deal'] = 'rigged'
        cfg['autos'] = [a for a in cfg['autos']
                        if a not in ('HOLE_DEALING', 'BOARD_DEALING')]
    if rng.random() < 0.4:
        pol['fork_p'] = 0.03     # continue on a deepcopy mid-hand
    pol['policy'] = rng.choice(['passive', 'passive', 'aggressive', 'allin',
                                'uniform'])
    pol['muck'] = 'never'
    if cfg.get('game') in gen.STUD_GAMES and cfg['n'] >= 8:
        pol['policy'] = 'passive'


def nontrivial(ctx):
    return {'showdown', 'auto-out'} <= ctx.tags


def run_shard(seed, shard, of, tier, deadline):
    return hist.run_history_shard(
        PROP, seed, shard, of, tier, deadline, cases=CASES,
        explore_s={'quick': 8, 'thorough': 100},
        explore_nodes={'quick': 2500, 'thorough': 40000},
        gen_kwargs=gen_kwargs, make_monitors=make_monitors,
        nontrivial=nontrivial, pol_tweak=pol_tweak, cfg_filter=cfg_filter)


def replay(payload):
    return hist.replay_history(payload, make_monitors, PROP)
