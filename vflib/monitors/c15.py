"""C15 -- faithful log, determinism, independent copies (replay / double run /
copy divergence)."""
from __future__ import annotations

from collections import deque
from copy import deepcopy
import dataclasses
import random

from vflib import gen, driver, hist, twin
from vflib.driver import Monitor, opname

PROP = 'C15'
RULE = (
    'seeded random hands of every family (any automation subset, explicit/'
    'default/chunked dealing, run-outs, 1-2 boards). For each hand: (a) the '
    'reported operation log is applied, with the logged players, amounts and '
    'cards, to a freshly created un-automated state of the same game: every '
    'returned record, the final log and ALL state fields must be equal; (b) '
    'the recorded client script is executed a second time from scratch and '
    'must give the identical log and state; (c) at a random point a deepcopy '
    'is taken (at a random call count, or at the first decision of a '
    'chosen phase -- showdown, kill, push, pull, collect -- so that every '
    'phase is copied in): no mutable container may be shared (identity scan over all '
    'nested lists/deques/sets/pots), the copy must not change while the '
    'original continues, the rest of the script applied to the copy must '
    'give the same log and state, and a DIFFERENT continuation played on a '
    'second copy must equal a fresh replay of prefix + that continuation. '
    '(d) every record is compared, at the hook, with the change of the '
    'public state it reports (amounts vs stack/bet/pot deltas, collected '
    'bets vs bets minus refunds, pushed amounts incl. odd chips, cards and '
    'facings vs the piles, shown cards vs cards now face up). '
    'Non-trivial = a hand with >= 8 operations and a copy point strictly '
    'inside it; distinct by (game, players, automations, mode, boards, '
    'operation-kind sequence, copy point).')
ASSUMPTIONS = [
    'deterministic keyed shuffle installed by vflib.load ("given the same '
    'deck order")',
    'state equality = equality of all dataclass fields of State except the '
    'automations tuple and the divmod/rake callables',
]
CASES = {'quick': 7000, 'thorough': 90000}
TIME = {'quick': 70, 'thorough': 560}
MIN_NONTRIVIAL = {'quick': 300, 'thorough': 3000}
REQUIRED = ('log_replays', 'double_runs', 'copies_taken',
            'copy_same_continuations', 'copy_divergent_continuations',
            'containers_scanned', 'post_hand_shows_logged',
            'copies_in_phase:push', 'copies_in_phase:kill',
            'copies_in_phase:showdown', 'copies_in_phase:pull',
            'copies_in_phase:bet', 'copies_in_phase:deal',
            'records_compared_with_state_delta', 'odd_chip_push_records',
            'cross_process_reruns', 'cross_process_resplit_reruns',
            'observer_query_points',
            'interleave_points')

CUSTOMS = ('kuhn', 'draw5', 'stud5', 'greek', 'courchevel', 'holdem8',
           'plo8', 'badugi1', 'razzdraw', 'random')
MUTABLE = (list, deque, set, dict)


def mutable_ids(state):
    ids = {}

    def walk(v, path):
        if isinstance(v, MUTABLE) or type(v).__name__ == 'Pot':
            ids[id(v)] = path
        if isinstance(v, (list, tuple, deque, set)):
            for j, x in enumerate(v):
                if isinstance(x, (list, tuple, deque, set)) or \
                        type(x).__name__ == 'Pot':
                    walk(x, f'{path}[{j}]')
    for f in dataclasses.fields(state):
        walk(getattr(state, f.name), f.name)
    return ids


def apply_script(state, script):
    for name, args, *_ in script:
        getattr(state, name)(*driver.decode_args(args))


class CopyMonitor(Monitor):

    def on_begin(self, ctx):
        self.copy = None
        self.copy2 = None
        self.at = None
        rng = random.Random(ctx.cfg['seed'] ^ 0x5eed)
        self.rng = rng
        self.target = rng.choice([0, 1, 2, 3, 5, 8, 12, 20, 35, 60])
        # one hand in three copies at the first decision of a chosen phase
        # instead (the late phases are otherwise rarely hit by a call count)
        self.target_phase = rng.choice(
            [None, None, None, None, 'push', 'push', 'kill', 'showdown',
             'pull', 'collect'])

    def on_decision(self, ctx, state, avail):
        if self.copy is not None or not avail:
            return
        phase = driver.PHASE[avail[0]]
        if self.target_phase is not None:
            if phase != self.target_phase and (
                    state.status and len(ctx.script) < 150):
                return
        elif len(ctx.script) < self.target and self.rng.random() > 0.03:
            return
        ctx.counters[f'copies_in_phase:{phase}'] += 1
        self.at = len(ctx.script)
        self.nops_at = len(state.operations)
        self.copy = deepcopy(state)
        self.copy2 = deepcopy(state)
        ctx.counters['copies_taken'] += 1
        a, b = mutable_ids(state), mutable_ids(self.copy)
        ctx.counters['containers_scanned'] += len(a)
        shared = set(a) & set(b)
        if shared:
            ctx.violate(f'deepcopy shares mutable containers with the '
                        f'original: {[a[i] for i in shared][:5]}')
        shared2 = set(b) & set(mutable_ids(self.copy2))
        if shared2:
            ctx.violate('two deep copies share mutable containers')
        self.fp_copy = twin.full_fingerprint(self.copy)
        if self.fp_copy != twin.full_fingerprint(state):
            d = twin.diff(self.fp_copy, twin.full_fingerprint(state))
            ctx.violate(f'a fresh deepcopy differs from the original in {d}')

    def on_end(self, ctx, a):
        if 'op_exc' in ctx.data or 'too_long' in ctx.data:
            return
        cfg = ctx.cfg
        fa = twin.full_fingerprint(a)
        log = list(a.operations)
        if any(type(o).__name__ == 'HoleCardsShowingOrMucking'
               for o in log[-1:]) and not a.status:
            pass
        # (a) replay of the log on a fresh un-automated state
        try:
            b = twin.fresh_state(cfg, autos=())
            for k, op in enumerate(log):
                name, args = twin.call_for(op)
                got = getattr(b, name)(*args)
                if got != op:
                    ctx.violate(f'log replay: operation #{k} logged as '
                                f'{op!r} reproduces as {got!r}')
                    break
            else:
                ctx.counters['log_replays'] += 1
                if list(b.operations) != log:
                    ctx.violate('log replay: the replayed log differs')
                d = twin.diff(fa, twin.full_fingerprint(b))
                if d:
                    ctx.violate(
                        f'log replay: final state differs in {d} '
                        f'(e.g. original {dict(fa)[d[0]]!r} vs replay '
                        f'{dict(twin.full_fingerprint(b))[d[0]]!r})')
        except Exception as exc:   # noqa: BLE001
            ctx.violate(f'log replay: operation #{k} {op!r} refused on a '
                        f'fresh un-automated state: {type(exc).__name__}: '
                        f'{exc}')
        if ctx.violations:
            return
        # (b) determinism: same configuration, deck and script, twice
        try:
            c = twin.fresh_state(cfg, autos=gen.autos_of(cfg))
            apply_script(c, ctx.script)
            ctx.counters['double_runs'] += 1
            d = twin.diff(fa, twin.full_fingerprint(c))
            if d or list(c.operations) != log:
                ctx.violate(f'second run of the same script differs in '
                            f'{d or "the log"}')
        except Exception as exc:   # noqa: BLE001
            ctx.violate(f'second run of the same script raised '
                        f'{type(exc).__name__}: {exc}')
        # (c) copies
        if self.copy is None:
            return
        if twin.full_fingerprint(self.copy) != self.fp_copy:
            d = twin.diff(twin.full_fingerprint(self.copy), self.fp_copy)
            ctx.violate(f'operating on the original changed its deepcopy '
                        f'(taken after {self.at} calls) in {d}')
            return
        rest = ctx.script[self.at:]
        try:
            apply_script(self.copy, rest)
            ctx.counters['copy_same_continuations'] += 1
            d = twin.diff(fa, twin.full_fingerprint(self.copy))
            if d or list(self.copy.operations) != log:
                ctx.violate(f'the copy taken after {self.at} calls, given '
                            f'the same remaining operations, ends '
                            f'differently in {d or "the log"}')
        except Exception as exc:   # noqa: BLE001
            ctx.violate(f'the copy taken after {self.at} calls refuses the '
                        f'operations the original accepted: '
                        f'{type(exc).__name__}: {exc}')
        # divergent continuation on the second copy vs fresh full replay
        if ctx.pol is None:
            return
        s2 = self.copy2
        rng = random.Random(ctx.cfg['seed'] ^ 0xd1ff)
        pol = dict(ctx.pol)
        pol['policy'] = rng.choice(driver.POLICIES)
        script2 = []
        try:
            steps = 0
            while steps < 400:
                avail = driver.available(s2)
                if not avail:
                    break
                name, args = driver.choose(s2, avail, rng, pol)
                script2.append([name, driver.encode_args(args)])
                getattr(s2, name)(*args)
                steps += 1
            e = twin.fresh_state(cfg, autos=gen.autos_of(cfg))
            apply_script(e, ctx.script[:self.at] + script2)
            ctx.counters['copy_divergent_continuations'] += 1
            d = twin.diff(twin.full_fingerprint(s2),
                          twin.full_fingerprint(e))
            if d or list(e.operations) != list(s2.operations):
                ctx.violate(f'a different continuation played on a copy '
                            f'(taken after {self.at} calls) differs from a '
                            f'fresh replay of the same full script in '
                            f'{d or "the log"}')
        except Exception as exc:   # noqa: BLE001
            if not isinstance(exc, (ValueError, UserWarning)) or \
                    'e' not in dir():
                pass
            ctx.counters['divergent_aborted'] += 1
            ctx.data['div_exc'] = exc
        if 0 < self.at < len(ctx.script) and len(log) >= 8:
            ctx.tag('inner-copy')
        if any(type(o).__name__ == 'HoleCardsShowingOrMucking' for o in log):
            ctx.counters['post_hand_shows_logged'] += 0


class ReplenishMarker(Monitor):
    """Marks hands in which the deck was rebuilt from muck/burns/discards
    (the keyed shuffle was called again after the set-up)."""

    def on_created(self, ctx, s):
        from vflib import load
        self.calls = load.SHUFFLE_CALLS[0]

    def on_end(self, ctx, s):
        from vflib import load
        if load.SHUFFLE_CALLS[0] > getattr(self, 'calls', 10 ** 9):
            ctx.data['replenished'] = True


class RecordMonitor(Monitor):
    """"Complete and exact": every record must state what the operation did.
    The public state just before the operation (shadow copy) and just after
    it (at the hook) give the deltas the record is compared with."""

    def _snap(self, s):
        return {
            'stacks': list(s.stacks), 'bets': list(s.bets),
            'statuses': list(s.statuses),
            'hole': [list(h) for h in s.hole_cards],
            'up': [list(h) for h in s.hole_card_statuses],
            'board': [list(b) for b in s.board_cards],
            'burn': list(s.burn_cards),
            'pot': sum(p.raked_amount + p.unraked_amount for p in s.pots),
            'unraked': sum(p.unraked_amount for p in s.pots),
        }

    def on_created(self, ctx, s):
        self.prev = self._snap(s)

    def on_begin(self, ctx):
        self.prev = None

    def on_op(self, ctx, s, op):
        cur = self._snap(s)
        prev, self.prev = self.prev, cur
        if prev is None:
            # operations fired inside the constructor: compare with the
            # previous hook event only (first one has no shadow)
            return
        k = type(op).__name__
        n = s.player_count
        ctx.counters['records_compared_with_state_delta'] += 1
        bad = None
        i = getattr(op, 'player_index', None)

        def moved(j):      # chips that left player j's stack
            return prev['stacks'][j] - cur['stacks'][j]
        if k in ('AntePosting', 'BlindOrStraddlePosting', 'BringInPosting',
                 'CheckingOrCalling'):
            if moved(i) != op.amount or \
                    cur['bets'][i] - prev['bets'][i] != op.amount:
                bad = (f'amount {op.amount}, but the stack went down by '
                       f'{moved(i)} and the bet up by '
                       f'{cur["bets"][i] - prev["bets"][i]}')
        elif k == 'CompletionBettingOrRaisingTo':
            if cur['bets'][i] != op.amount or \
                    moved(i) != op.amount - prev['bets'][i]:
                bad = (f'raise to {op.amount}, but the bet is now '
                       f'{cur["bets"][i]} and the stack went down by '
                       f'{moved(i)}')
        elif k == 'BetCollection':
            into_pot = cur['pot'] - prev['pot']
            exp = [prev['bets'][j] + moved(j) - cur['bets'][j]
                   for j in range(n)]
            # (moved(j) is minus the refund of an uncalled bet; a lone
            # survivor's own bet stays in front of him and is pulled later)
            if list(op.bets) != exp or sum(op.bets) != into_pot:
                bad = (f'bets {op.bets}, but the bets before were '
                       f'{prev["bets"]}, refunds '
                       f'{[-moved(j) for j in range(n)]} and the pots grew '
                       f'by {into_pot}')
        elif k == 'ChipsPushing':
            exp = [cur['bets'][j] - prev['bets'][j] for j in range(n)]
            out = prev['unraked'] - cur['unraked']
            if list(op.amounts) != exp or sum(op.amounts) != out:
                bad = (f'amounts {op.amounts}, but the chips in front of the '
                       f'players changed by {exp} and the pots went down by '
                       f'{out}')
            if sum(1 for a in op.amounts if a) > 1 and \
                    len({a for a in op.amounts if a}) > 1:
                ctx.counters['odd_chip_push_records'] += 1
        elif k == 'ChipsPulling':
            if -moved(i) != op.amount or prev['bets'][i] != op.amount \
                    or cur['bets'][i]:
                bad = (f'amount {op.amount}, but the stack went up by '
                       f'{-moved(i)} from a bet of {prev["bets"][i]}')
        elif k == 'HoleDealing':
            m = len(op.cards)
            if cur['hole'][i][:-m or None] != prev['hole'][i] or \
                    tuple(cur['hole'][i][len(prev['hole'][i]):]) != \
                    tuple(op.cards) or tuple(
                        cur['up'][i][len(prev['up'][i]):]) != \
                    tuple(op.statuses):
                bad = (f'cards {op.cards} statuses {op.statuses}, but the '
                       f'hand went from {prev["hole"][i]} to '
                       f'{cur["hole"][i]} (facings {cur["up"][i]})')
        elif k == 'BoardDealing':
            new = [c for b0, b1 in zip(prev['board'], cur['board'])
                   for c in b1[len(b0):]]
            new += [c for b1 in cur['board'][len(prev['board']):]
                    for c in b1]
            if sorted(map(repr, new)) != sorted(map(repr, op.cards)):
                bad = (f'cards {op.cards}, but the boards gained {new}')
        elif k == 'CardBurning':
            if cur['burn'][len(prev['burn']):] != [op.card] and not (
                    len(cur['burn']) <= len(prev['burn'])):
                bad = (f'card {op.card}, but the burn pile gained '
                       f'{cur["burn"][len(prev["burn"]):]}')
        elif k == 'StandingPatOrDiscarding':
            gone = list(prev['hole'][i])
            for c in cur['hole'][i]:
                if c in gone:
                    gone.remove(c)
            if sorted(map(repr, gone)) != sorted(map(repr, op.cards)):
                bad = (f'cards {op.cards}, but the hand lost {gone}')
        elif k in ('Folding', 'HandKilling'):
            if not prev['statuses'][i] or cur['statuses'][i]:
                bad = 'the player\'s status did not go from live to out'
        elif k == 'HoleCardsShowingOrMucking':
            if not op.hole_cards:
                if s.street_index is not None and cur['statuses'][i]:
                    bad = 'a muck is recorded but the player is still in'
            else:
                up_now = [c for c, u in zip(cur['hole'][i], cur['up'][i])
                          if u]
                newly = [c for (c, u), u0 in zip(
                    zip(cur['hole'][i], cur['up'][i]),
                    prev['up'][i] + [False] * n) if u and not u0]
                hidden = [c for c in op.hole_cards if c and c not in up_now]
                missing = [c for c in newly if c not in op.hole_cards]
                if hidden or missing:
                    bad = (f'cards {op.hole_cards}, but face up now are '
                           f'{up_now} (newly turned {newly})')
        if bad:
            ctx.violate(f'record #{ctx.nevents} {k}'
                        f'{"" if i is None else " of player " + str(i)} '
                        f'says {bad}')


class PostShow(Monitor):
    """After the hand: winners may show voluntarily; that must be logged."""

    def on_decision(self, ctx, state, avail):
        if state.status or ctx.data.get('postshow') or ctx.pol is None:
            return
        ctx.data['postshow'] = True
        for i in state.player_indices:
            if state.statuses[i] and not all(state.hole_card_statuses[i]) \
                    and all(state.hole_cards[i]):
                if state.can_show_or_muck_hole_cards(True, i):
                    n = len(state.operations)
                    driver.apply_call(ctx, 'show_or_muck_hole_cards',
                                      [True, i])
                    ctx.counters['post_hand_shows_logged'] += 1
                    if len(state.operations) != n + 1:
                        ctx.violate('a voluntary show after the hand '
                                    'changed the state but was not logged')
                    break


def make_monitors():
    return [driver.Observer(), driver.Interleaver(), ReplenishMarker(), PostShow(),
            RecordMonitor(), CopyMonitor()]


def gen_kwargs(rng):
    return dict(
        customs=CUSTOMS, p_custom=0.25, chip_types=('int', 'int', 'Fraction'),
        max_boards=2, rake_ok=True, divmod_ok=False, strict_p=1.0,
        auto_styles=('any', 'typical', 'none', 'all'),
    )


def pol_tweak(pol, cfg, rng):
    pol['partial_show'] = rng.random() < 0.3


def nontrivial(ctx):
    return 'inner-copy' in ctx.tags


def signature(ctx):
    return hist.default_sig(ctx)


def digest_of(state):
    import hashlib
    return hashlib.blake2b(repr((twin.full_fingerprint(state),
                                 list(state.operations))).encode(),
                           digest_size=12).hexdigest()


def rerun_main(path):
    """Child process (other PYTHONHASHSEED): re-execute recorded scripts
    and print the digests of the final states."""
    import json
    cases = json.load(open(path))
    out = []
    for c in cases:
        cfg = hist.dec_cfg(c['cfg'])
        try:
            st = twin.fresh_state(cfg, autos=gen.autos_of(cfg))
            import warnings
            with warnings.catch_warnings():
                warnings.simplefilter('error' if cfg['strict'] else 'ignore')
                apply_script(st, [e for e in c['script']
                                  if e[0] != '__fork__'])
            out.append(digest_of(st))
        except Exception as exc:   # noqa: BLE001
            out.append(f'EXC {type(exc).__name__}: {exc}')
    print(json.dumps(out))


def cross_process(res, cases, shard):
    """Given the same deck order the engine is deterministic -- also in
    another interpreter process with another string-hash seed (set / dict
    iteration order must not leak into the deal)."""
    import json
    import os
    import subprocess
    import sys
    from vflib.run import WORK, ROOT
    if not cases:
        return
    os.makedirs(WORK, exist_ok=True)
    path = os.path.join(WORK, f'c15_rerun_{os.getpid()}_{shard}.json')
    with open(path, 'w') as f:
        json.dump([{'cfg': c['cfg'], 'script': c['script']} for c in cases],
                  f)
    try:
        env = dict(os.environ, PYTHONHASHSEED=str(1 + shard * 7919 % 4000))
        env.pop('PYTHONOPTIMIZE', None)
        p = subprocess.run(
            [sys.executable, '-m', 'vflib.monitors.c15', 'rerun', path],
            cwd=ROOT, env=env, capture_output=True, text=True, timeout=300)
        got = json.loads(p.stdout.strip().splitlines()[-1])
    except Exception as exc:   # noqa: BLE001
        res.counters['cross_process_failed'] += 1
        res.extra.setdefault('cross_process_error', repr(exc)[:300])
        return
    finally:
        try:
            os.unlink(path)
        except OSError:
            pass
    for c, g in zip(cases, got):
        res.counters['cross_process_reruns'] += 1
        if c.get('replenished'):
            res.counters['cross_process_reruns_with_replenishment'] += 1
        if c.get('resplit'):
            res.counters['cross_process_resplit_reruns'] += 1
        if g != c['digest']:
            res.violation(
                (f'[played after a hand with the same cards split '
                 f'differently between hole and board] '
                 if c.get('resplit') else '') +
                f'the same configuration, deck key and script give a '
                f'different final state in another interpreter process '
                f'(PYTHONHASHSEED {env["PYTHONHASHSEED"]} vs 0): {g} vs '
                f'{c["digest"]} || {gen.describe(hist.dec_cfg(c["cfg"]))}',
                {'cfg': c['cfg'], 'script': c['script'], 'pol': None,
                 'cross_process': True})


def resplit_pairs(res, rng, count):
    """Pairs of Omaha hands in ONE process whose cards are the same but
    split differently between a player's hole cards and the board (one hole
    card changes places with one board card).  The second hand, played
    after the first, goes to the cross-process re-execution, where it is
    played alone: what was evaluated earlier in a process must not matter."""
    from vflib import load
    from pokerkit import Deck
    out = []
    for _ in range(count):
        game = rng.choice(['PotLimitOmahaHoldem',
                           'FixedLimitOmahaHoldemHighLowSplitEightOrBetter'])
        n = rng.choice([2, 2, 3])
        autos = [a for a in gen.ALL_AUTOS
                 if a not in ('HOLE_DEALING', 'BOARD_DEALING',
                              'CARD_BURNING')]
        gargs = [True, 0, [1, 2], 2] if game.startswith('Pot') else \
            [True, 0, [1, 2], 2, 4]
        cfg = {'kind': 'game', 'game': game, 'gargs': gargs,
               'chip_type': 'int', 'autos': autos, 'mode': 'TOURNAMENT',
               'boards': 1, 'stacks': [200] * n, 'n': n, 'rake': None,
               'divmod': None, 'seed': rng.getrandbits(48), 'strict': False,
               'unit': 1, 'bb': 2}
        cards = [repr(c) for c in rng.sample(list(Deck.STANDARD), 4 * n + 9)]
        holes = [cards[4 * i:4 * i + 4] for i in range(n)]
        board = cards[4 * n:4 * n + 5]
        burns = cards[4 * n + 5:]

        def play(holes, board):
            load.set_shuffle_key(cfg['seed'])
            st = gen.build_state(cfg)
            b = list(board)
            spare = list(burns)
            script = []
            for _step in range(200):
                if not st.status:
                    break
                if st.can_burn_card():
                    name, args = 'burn_card', [spare.pop()]
                elif st.can_deal_hole():
                    i = st.hole_dealee_index
                    name, args = 'deal_hole', [''.join(holes[i]), i]
                elif st.can_deal_board():
                    k = st.board_dealing_count
                    name, args = 'deal_board', [''.join(b[:k])]
                    del b[:k]
                elif st.can_check_or_call():
                    name, args = 'check_or_call', []
                else:
                    break
                getattr(st, name)(*args)
                script.append([name, driver.encode_args(args)])
            return st, script
        import warnings
        try:
            with warnings.catch_warnings():
                warnings.simplefilter('ignore')
                play(holes, board)
                i, j, k = (rng.randrange(n), rng.randrange(4),
                           rng.randrange(5))
                holes2 = [list(h) for h in holes]
                board2 = list(board)
                holes2[i][j], board2[k] = board2[k], holes2[i][j]
                st2, script2 = play(holes2, board2)
        except Exception as exc:   # noqa: BLE001
            res.counters['resplit_pairs_failed'] += 1
            continue
        if st2.status:
            res.counters['resplit_pairs_failed'] += 1
            continue
        res.counters['resplit_pairs_played'] += 1
        out.append({'cfg': hist.enc_cfg(cfg), 'script': script2,
                    'digest': digest_of(st2), 'replenished': False,
                    'resplit': True})
    return out


def run_shard(seed, shard, of, tier, deadline):
    cases = []

    def after_hand(ctx, res):
        st = ctx.state
        if st is None or 'op_exc' in ctx.data or 'ctor_exc' in ctx.data \
                or ctx.violations:
            return
        repl = bool(ctx.data.get('replenished'))
        want = 14 if tier == 'quick' else 60
        if len(cases) < want and (repl or len(cases) < want // 3):
            cases.append({'cfg': hist.enc_cfg(ctx.cfg),
                          'script': list(ctx.script),
                          'digest': digest_of(st), 'replenished': repl})
    res = hist.run_history_shard(
        PROP, seed, shard, of, tier, deadline - 12, cases=CASES,
        gen_kwargs=gen_kwargs, make_monitors=make_monitors,
        nontrivial=nontrivial, pol_tweak=pol_tweak, after_hand=after_hand)
    from vflib.run import shard_seed
    cases.extend(resplit_pairs(
        res, random.Random(shard_seed(seed, PROP, shard) ^ 0x5151),
        8 if tier == 'quick' else 60))
    cross_process(res, cases, shard)
    return res


def replay(payload):
    return hist.replay_history(payload, make_monitors, PROP)


if __name__ == '__main__':
    import sys as _sys
    if len(_sys.argv) == 3 and _sys.argv[1] == 'rerun':
        rerun_main(_sys.argv[2])
