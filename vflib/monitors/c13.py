"""C13 -- the right player opens each betting round (observation at the first
decision of every round + independent opener model)."""
from __future__ import annotations

from vflib import gen, driver, hist
from vflib.driver import Monitor
from vflib.ref import opener

PROP = 'C13'
RULE = (
    '(i) bounded-exhaustive: the COMPLETE decision trees of small games '
    '(2-3 players, stacks of 1-8 chips, hold\'em NL/FL, PLO, Kuhn, razz, '
    'single draw; every fold/call/raise amount/discard/show-or-muck '
    'choice) are walked under the same monitors (vflib.explore); (ii) '
    'seeded random hands on every blind/straddle/late-post/button-blind '
    'layout (incl. blinds shorter than the stack, heads-up, dead seats) and '
    'on the stud games with up-cards dealt explicitly from 2-4 ranks so that '
    'rank ties, pairs, trips and equal exposed hands are frequent; all-in '
    'openers; int, Fraction, float and Decimal chips (forced bets below one '
    'chip unit included); strict and, in cash games, lenient warnings. At '
    'the first decision of every betting round (state with an '
    'actor whose last logged operation is not a betting operation) the '
    'engine\'s actor is compared with the independent opener model; the '
    'bring-in poster likewise. Non-trivial = a hand with >= 2 judged round '
    'openings; distinct by (game, players, mode, operation-kind sequence, '
    'openers).')
ASSUMPTIONS = [
    'rounds in which nobody can act are not judged (no actor is exposed)',
    'the largest blind/straddle is taken by the amount actually posted '
    '(a short straddle does not move the opener)',
]
CASES = {'quick': 18000, 'thorough': 240000}
TIME = {'quick': 60, 'thorough': 500}
MIN_NONTRIVIAL = {'quick': 1200, 'thorough': 12000}
REQUIRED = ('openings_checked', 'stud_low_card_openings',
            'stud_high_card_openings', 'stud_high_hand_openings',
            'stud_low_hand_openings', 'position_first_round',
            'position_later_round', 'opener_passed_clockwise',
            'rank_ties_broken_by_suit', 'exposed_hand_ties',
            'headsup_openings', 'straddle_or_post_layouts',
            'bring_in_posters_checked', 'fractional_blind_openings',
            'trees_completed', 'explored_nodes',
            'forks')

BETTING = ('Folding', 'CheckingOrCalling', 'BringInPosting',
           'CompletionBettingOrRaisingTo')


class OpenerMonitor(Monitor):

    def on_begin(self, ctx):
        self.judged = 0
        self.openers = []
        self.expect_bring_in = None

    def on_decision(self, ctx, s, avail):
        if s.actor_index is None or not s.status:
            return
        if s.operations and type(s.operations[-1]).__name__ in BETTING:
            return
        if s.street_index and s.can_post_bring_in():
            ctx.violate(f'a bring-in is demanded on street {s.street_index}: '
                        f'the forced bring-in belongs to the first betting '
                        f'round only')
            return
        exp = opener.first_actor(s)
        got = s.actor_index
        ctx.counters['openings_checked'] += 1
        self.judged += 1
        self.openers.append(got)
        op = s.street.opening.name
        if got != exp:
            ups = {i: [c for c, u in zip(s.hole_cards[i],
                                         s.hole_card_statuses[i]) if u]
                   for i in s.player_indices if s.statuses[i]}
            ctx.violate(
                f'round on street {s.street_index} ({op}) opened by player '
                f'{got}, model says {exp} (designated '
                f'{opener.designated(s)}; bets {s.bets}, stacks {s.stacks}, '
                f'statuses {s.statuses}, blinds {s.blinds_or_straddles}, '
                f'up cards {ups if op != "POSITION" else "-"})')
            return
        d = opener.designated(s)
        if d != exp:
            ctx.counters['opener_passed_clockwise'] += 1
        if op == 'POSITION':
            if any(s.bets):
                ctx.counters['position_first_round'] += 1
                if any(0 < abs(x) < 1 for x in s.blinds_or_straddles):
                    ctx.counters['fractional_blind_openings'] += 1
                b = s.blinds_or_straddles
                if any(x < 0 for x in b) or sum(1 for x in b if x > 0) > 2 \
                        or (len([x for x in b if x]) == 1):
                    ctx.counters['straddle_or_post_layouts'] += 1
            else:
                ctx.counters['position_later_round'] += 1
            if s.player_count == 2:
                ctx.counters['headsup_openings'] += 1
        else:
            ctx.counters['stud_' + op.lower() + '_openings'] += 1
            ups = [list(s.get_up_cards(i)) for i in s.player_indices
                   if s.statuses[i]]
            if op in ('LOW_CARD', 'HIGH_CARD'):
                order = opener.STD if op == 'LOW_CARD' else opener.REG
                ranks = [order.index(c.rank.value) for u in ups for c in u]
                ext = min(ranks) if op == 'LOW_CARD' else max(ranks)
                if ranks.count(ext) > 1:
                    ctx.counters['rank_ties_broken_by_suit'] += 1
                if s.can_post_bring_in():
                    self.expect_bring_in = exp
            else:
                order = opener.STD if op == 'HIGH_HAND' else opener.REG
                keys = [opener.exposed_key(u, order) for u in ups]
                best = max(keys) if op == 'HIGH_HAND' else min(keys)
                if keys.count(best) > 1:
                    ctx.counters['exposed_hand_ties'] += 1

    def on_op(self, ctx, s, op):
        k = type(op).__name__
        if k in ('AntePosting', 'BlindOrStraddlePosting'):
            # the seat the layout names pays the forced bet; heads-up the
            # layout is read reversed (button = small blind), antes and
            # blinds alike
            i = op.player_index
            n = s.player_count
            j = (1 - i) if n == 2 else i
            layout = s.antes if k == 'AntePosting' else s.blinds_or_straddles
            start = s.starting_stacks[i]
            if k == 'BlindOrStraddlePosting':
                start = start - min(start, s.antes[j])
            exp = min(start, abs(layout[j]))
            ctx.counters['forced_bets_checked'] += 1
            if op.amount != exp:
                ctx.violate(
                    f'{k} of player {i}: {op.amount}, the layout '
                    f'{"(read reversed heads-up) " if n == 2 else ""}'
                    f'names {abs(layout[j])} for that seat and he has '
                    f'{start} (antes {s.antes}, blinds '
                    f'{s.blinds_or_straddles}, stacks {s.starting_stacks})')
        if type(op).__name__ == 'Folding' and self.expect_bring_in is not None:
            ctx.violate(f'player {op.player_index} folded while the bring-in '
                        f'of player {self.expect_bring_in} was pending')
        if type(op).__name__ == 'BringInPosting':
            ctx.counters['bring_in_posters_checked'] += 1
            if self.expect_bring_in is not None \
                    and op.player_index != self.expect_bring_in:
                ctx.violate(f'bring-in posted by {op.player_index}, model '
                            f'says {self.expect_bring_in}')
            self.expect_bring_in = None
        elif type(op).__name__ in BETTING and \
                type(op).__name__ != 'Folding':
            self.expect_bring_in = None      # completed instead of posting

    def on_end(self, ctx, s):
        if self.judged >= 2:
            ctx.tag('judged2')
        ctx.data['openers'] = tuple(self.openers)


def make_monitors():
    return [driver.Observer(0.1), OpenerMonitor()]


def gen_kwargs(rng):
    stud = rng.random() < 0.5
    return dict(
        games=gen.STUD_GAMES if stud else tuple(
            g for g in gen.ALL_GAMES if g not in gen.STUD_GAMES),
        customs=('stud5', 'openstud', 'studdraw2') if stud else ('greek', 'draw5', 'kuhn', 'random'),
        p_custom=0.15,
        chip_types=('int', 'int', 'int', 'Fraction', 'float', 'Decimal'),
        max_boards=1, strict_p=0.85,
        auto_styles=('typical', 'any'),
    )


def pol_tweak(pol, cfg, rng):
    if rng.random() < 0.4:
        pol['fork_p'] = 0.03     # continue on a deepcopy mid-hand
    pol['policy'] = rng.choice(['passive', 'passive', 'uniform', 'aggressive',
                                'allin'])
    stud = cfg.get('game') in gen.STUD_GAMES or cfg.get('template') in ('stud5', 'openstud', 'studdraw2')
    pol['deal'] = 'fewranks' if stud and rng.random() < 0.8 else 'default'


def cfg_filter(cfg, rng):
    if not cfg['strict'] and cfg['mode'] != 'CASH_GAME':
        cfg['strict'] = True      # lenient = cash game with warned folds
    # dealing must be manual for the rigged up-cards
    stud = cfg.get('game') in gen.STUD_GAMES or cfg.get('template') in ('stud5', 'openstud', 'studdraw2')
    if stud and rng.random() < 0.85:
        cfg['autos'] = [a for a in cfg['autos'] if a != 'HOLE_DEALING']
    return cfg


def nontrivial(ctx):
    return 'judged2' in ctx.tags


def signature(ctx):
    return hist.default_sig(ctx) + str(ctx.data.get('openers'))


def run_shard(seed, shard, of, tier, deadline):
    return hist.run_history_shard(
        PROP, seed, shard, of, tier, deadline, cases=CASES,
        explore_s={'quick': 8, 'thorough': 100},
        explore_nodes={'quick': 2500, 'thorough': 40000},
        gen_kwargs=gen_kwargs, make_monitors=make_monitors,
        nontrivial=nontrivial, pol_tweak=pol_tweak, cfg_filter=cfg_filter,
        signature=signature)


def replay(payload):
    return hist.replay_history(payload, make_monitors, PROP)
