"""C03 -- betting follows the rules (online trace checker at every betting
decision, driven by the hook events; reference round in vflib.ref.betting)."""
from __future__ import annotations

import warnings

from vflib import gen, driver, hist
from vflib.driver import Monitor
from vflib.ref.betting import RefRound

PROP = 'C03'
RULE = (
    '(i) bounded-exhaustive: the COMPLETE decision trees of small games '
    '(2-3 players, stacks of 1-8 chips, hold\'em NL/FL, PLO, Kuhn, razz, '
    'single draw; every fold/call/raise amount/discard/show-or-muck '
    'choice) are walked under the same monitors (vflib.explore); (ii) '
    'seeded random hands on all structures (fixed/pot/no-limit) x modes x '
    'blind/straddle/post/bring-in layouts x caps (4 / None / 0-3 on custom '
    'games), stacks near the thresholds, 2-9 players, int and Fraction '
    'chips, with and without a rake function (the pot-sized raise counts '
    'every chip in the middle). At EVERY betting decision the reference round (advanced by the '
    'observed operations) must agree with the engine on: actor, round end, '
    'fold legality (strict and lenient), call amount, bring-in, raise '
    'admissibility and the interval [min, max] and pot-size; then '
    'can_complete_bet_or_raise_to(x) is probed for x below/at/between/above '
    'the bounds (every value when the interval has <= 32 values). '
    'Non-trivial = a betting round with >= 1 bet/raise/completion; distinct '
    'by (game, players, structure, mode, operation-kind sequence).')
ASSUMPTIONS = [
    'the first actor of a round is taken from the engine (decided by C13)',
    'chips collected so far = starting stacks - stacks - bets (C01)',
    'conventions fixed by the documentation: a straddle is not a raise for '
    'the minimum; an all-in opening bet below the street minimum counts as '
    'full; every raise counts towards the cap',
]
CASES = {'quick': 16000, 'thorough': 220000}
TIME = {'quick': 70, 'thorough': 560}
MIN_NONTRIVIAL = {'quick': 1500, 'thorough': 15000}
REQUIRED = ('decisions_checked', 'raise_intervals_probed', 'cap_refusals',
            'covered_refusals', 'nobody_could_call_refusals',
            'short_allin_refusals', 'short_allin_reopened',
            'bring_in_decisions', 'completions', 'fold_refused_tournament',
            'fold_warned_cash', 'rounds_with_raise',
            'pot_limit_probes', 'fixed_limit_probes',
            'pot_limit_probes_raked_pot',
            'trees_completed', 'explored_nodes',
            'forks')

BETTING = ('Folding', 'CheckingOrCalling', 'BringInPosting',
           'CompletionBettingOrRaisingTo')
CUSTOMS = ('kuhn', 'draw5', 'stud5', 'greek', 'holdem8', 'plo8', 'badugi1',
           'razzdraw', 'random', 'openstud')


def _q_fold(state, mode):
    with warnings.catch_warnings():
        warnings.simplefilter(mode)
        return state.can_fold()


class BettingMonitor(Monitor):

    def on_begin(self, ctx):
        self.ref = None
        self.round_raises = 0

    def _new_round(self, ctx, s):
        st = s.street
        first = s.street is s.streets[0]
        collected = (sum(s.starting_stacks) - sum(s.stacks) - sum(s.bets))
        # the first actor of the round comes from the independent opener
        # model (the same one C13 uses), not from the engine
        from vflib.ref import opener as _opener
        exp_first = _opener.first_actor(s)
        ctx.counters['round_openers_compared'] += 1
        if exp_first is not None and exp_first != s.actor_index:
            ctx.violate(
                f'round on street {s.street_index} is opened by player '
                f'{s.actor_index}, the opener model says {exp_first} (bets '
                f'{s.bets}, stacks {s.stacks}, statuses {s.statuses}, '
                f'blinds {s.blinds_or_straddles})')
        self.ref = RefRound(
            s.player_count, s.statuses, s.stacks, s.bets,
            str(s.betting_structure),
            st.min_completion_betting_or_raising_amount,
            st.max_completion_betting_or_raising_count,
            str(s.mode) == 'Tournament', s.bring_in if first else 0,
            s.actor_index, collected)
        self.round_raises = 0
        ctx.counters['rounds'] += 1

    def on_op(self, ctx, s, op):
        kind = type(op).__name__
        r = self.ref
        if kind not in BETTING:
            if r is not None:
                if not r.over:
                    ctx.violate(f'round ended by {kind} although the model '
                                f'still expects players {r.queue} to act '
                                f'(bets {r.bet}, live {r.live})')
                self.ref = None
            return
        if r is None:
            ctx.violate(f'{kind} outside any betting round known to the '
                        f'monitor')
            return
        a = r.actor
        if op.player_index != a:
            ctx.violate(f'{kind} by player {op.player_index}, model actor '
                        f'{a}')
            self.ref = None
            return
        if kind == 'Folding':
            r.fold()
        elif kind == 'CheckingOrCalling':
            _, amt = r.call()
            if amt != op.amount:
                ctx.violate(f'call amount {op.amount} != model {amt}')
        elif kind == 'BringInPosting':
            _, amt = r.post_bring_in()
            if amt != op.amount:
                ctx.violate(f'bring-in amount {op.amount} != model {amt}')
        else:
            if r.completion_pending:
                ctx.counters['completions'] += 1
            r.raise_to(op.amount)
            self.round_raises += 1
            if self.round_raises == 1:
                ctx.counters['rounds_with_raise'] += 1
                ctx.tag('raise')
        if list(s.bets) != r.bet or list(s.stacks) != r.stack:
            ctx.violate(f'after {kind}: bets/stacks {s.bets}/{s.stacks} != '
                        f'model {r.bet}/{r.stack}')
            self.ref = None
            return
        engine_over = s.actor_index is None or sum(s.statuses) <= 1
        if engine_over != r.over:
            ctx.violate(f'after {kind} by {op.player_index}: engine round '
                        f'over={engine_over}, model over={r.over} (queue '
                        f'{r.queue}, bets {r.bet}, stacks {r.stack}, live '
                        f'{r.live})')
            self.ref = None
            return
        if r.over:
            self.ref = None

    def on_decision(self, ctx, s, avail):
        if s.actor_index is None:
            if self.ref is not None and not self.ref.over:
                ctx.violate(f'no actor although the model expects '
                            f'{self.ref.queue}')
                self.ref = None
            return
        if self.ref is None:
            self._new_round(ctx, s)
            if self.ref.over:
                ctx.violate(f'engine opened a betting round (actor '
                            f'{s.actor_index}) the model considers void '
                            f'(bets {s.bets}, stacks {s.stacks}, statuses '
                            f'{s.statuses})')
                self.ref = None
                return
        self.compare(ctx, s, self.ref)

    def on_end(self, ctx, s):
        if ctx.data.get('void_round'):
            pass

    def compare(self, ctx, s, r):
        ctx.counters['decisions_checked'] += 1
        a = r.actor
        if s.actor_index != a:
            ctx.violate(f'actor {s.actor_index} != model {a} (queue '
                        f'{r.queue})')
            self.ref = None
            return
        if s.turn_index != a:
            ctx.violate(f'turn_index {s.turn_index} != actor {a}')
        fs = r.fold_status()
        strict_can = _q_fold(s, 'error')
        lenient_can = _q_fold(s, 'ignore')
        if strict_can != (fs == 'ok') or lenient_can != (fs in ('ok', 'warn')):
            ctx.violate(f'fold: engine strict={strict_can} lenient='
                        f'{lenient_can}, model {fs} (bets {r.bet}, actor '
                        f'{a})')
        if fs == 'no' and not r.bring_in_pending:
            ctx.counters['fold_refused_tournament'] += 1
        if fs == 'warn':
            ctx.counters['fold_warned_cash'] += 1
        if s.can_check_or_call() != r.can_call():
            ctx.violate(f'can_check_or_call {s.can_check_or_call()} != '
                        f'model {r.can_call()}')
        elif r.can_call() and s.checking_or_calling_amount != \
                r.call_amount():
            ctx.violate(f'calling amount {s.checking_or_calling_amount} != '
                        f'model min(stack, to match) = {r.call_amount()}')
        if s.can_post_bring_in() != r.can_bring_in():
            ctx.violate(f'can_post_bring_in {s.can_post_bring_in()} != '
                        f'model {r.can_bring_in()}')
        elif r.can_bring_in():
            ctx.counters['bring_in_decisions'] += 1
            if s.effective_bring_in_amount != r.bring_in_amount():
                ctx.violate(f'bring-in amount {s.effective_bring_in_amount}'
                            f' != model {r.bring_in_amount()}')
        why = r.raise_refusal()
        can = s.can_complete_bet_or_raise_to()
        if can != (why is None):
            ctx.violate(f'can_complete_bet_or_raise_to() = {can}, model: '
                        f'{why or "admissible"} (count {r.count}, cap '
                        f'{r.cap}, all-in run {r.allin_run}, largest raise '
                        f'{r.max_incr}, acted {sorted(r.acted)}, bets '
                        f'{r.bet}, stacks {r.stack})')
            return
        if why is not None:
            key = {'cap reached': 'cap_refusals', 'covered':
                   'covered_refusals', 'nobody could call more':
                   'nobody_could_call_refusals'}.get(
                       why, 'short_allin_refusals')
            ctx.counters[key] += 1
            for x in (None, r.maxbet + r.street_min, r.stack[a] + r.bet[a]):
                if s.can_complete_bet_or_raise_to(x):
                    ctx.violate(f'raise to {x} accepted although: {why}')
            return
        if r.allin_run and a in r.acted:
            ctx.counters['short_allin_reopened'] += 1
        lo, hi, pot = r.min_to(), r.max_to(), r.pot_to()
        e_lo = s.min_completion_betting_or_raising_to_amount
        e_hi = s.max_completion_betting_or_raising_to_amount
        e_pot = s.pot_completion_betting_or_raising_to_amount
        if e_lo != lo:
            ctx.violate(f'min raise-to {e_lo} != model {lo} (largest raise '
                        f'{r.max_incr}, street min {r.street_min}, bets '
                        f'{r.bet}, stacks {r.stack}, completion pending '
                        f'{r.completion_pending})')
        if e_hi != hi:
            ctx.violate(f'max raise-to {e_hi} != model {hi} ({r.structure},'
                        f' bets {r.bet}, stacks {r.stack}, collected '
                        f'{r.pot_collected})')
        if e_pot != pot:
            ctx.violate(f'pot raise-to {e_pot} != model {pot} (bets '
                        f'{r.bet}, collected {r.pot_collected})')
        if lo > hi:
            ctx.violate(f'model interval empty [{lo},{hi}]')
            return
        ctx.counters['raise_intervals_probed'] += 1
        if r.structure == 'Pot-limit':
            ctx.counters['pot_limit_probes'] += 1
            if ctx.cfg['rake'] and r.pot_collected:
                # the pot-sized raise counts every chip in the middle; the
                # rake is only taken when the pot is pushed
                ctx.counters['pot_limit_probes_raked_pot'] += 1
        elif r.structure == 'Fixed-limit':
            ctx.counters['fixed_limit_probes'] += 1
        if isinstance(lo, int) and isinstance(hi, int):
            if hi - lo <= 32:
                xs = set(range(lo - 2, hi + 3))
            else:
                xs = {lo - 1, lo, lo + 1, (lo + hi) // 2, hi - 1, hi, hi + 1,
                      pot, pot + 1}
            xs |= {0, -1, r.stack[a] + r.bet[a] + 1}
        else:
            step = (hi - lo) / 4
            xs = {lo, hi, lo + step, lo + 2 * step, pot, 0,
                  r.stack[a] + r.bet[a] + step + 1}
            if lo > 0:
                xs.add(lo - lo / 7)
            xs.add(hi + lo / 7 + 1)
        for x in xs:
            exp = lo <= x <= hi
            got = s.can_complete_bet_or_raise_to(x)
            ctx.counters['amount_probes'] += 1
            if got != exp:
                ctx.violate(f'raise to {x}: engine {got}, model interval '
                            f'[{lo},{hi}] ({r.structure})')
                break


def make_monitors():
    return [driver.Observer(0.1), BettingMonitor()]


def gen_kwargs(rng):
    return dict(
        customs=CUSTOMS, p_custom=0.3,
        chip_types=('int', 'int', 'int', 'Fraction'),
        max_boards=1, rake_ok=True, divmod_ok=False, strict_p=0.85,
        auto_styles=('typical', 'all', 'any'),
    )


def cfg_filter(cfg, rng):
    if not cfg['strict'] and cfg['mode'] != 'CASH_GAME':
        cfg['strict'] = True
    return cfg


def pol_tweak(pol, cfg, rng):
    if rng.random() < 0.4:
        pol['fork_p'] = 0.03     # continue on a deepcopy mid-hand
    pol['policy'] = rng.choice(['aggressive', 'aggressive', 'allin',
                                'uniform', 'passive', 'foldy'])
    pol['deal'] = 'default'


def nontrivial(ctx):
    return 'raise' in ctx.tags


def after_hand(ctx, res):
    pass


def run_shard(seed, shard, of, tier, deadline):
    return hist.run_history_shard(
        PROP, seed, shard, of, tier, deadline, cases=CASES,
        explore_s={'quick': 8, 'thorough': 100},
        explore_nodes={'quick': 2500, 'thorough': 40000},
        gen_kwargs=gen_kwargs, make_monitors=make_monitors,
        nontrivial=nontrivial, pol_tweak=pol_tweak, cfg_filter=cfg_filter)


def replay(payload):
    return hist.replay_history(payload, make_monitors, PROP)
