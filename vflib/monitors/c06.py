"""C06 -- cards are conserved (invariant at the hook + shadow diff)."""
from __future__ import annotations

from collections import Counter

from vflib import gen, driver, hist
from vflib.driver import Monitor
from pokerkit import Deck

PROP = 'C06'
RULE = (
    'seeded random hands on every deck (52 standard, 52 regular, 36, 20, 3 '
    'cards): draw-heavy triple draw/badugi with 5-8 players, 7-8 handed stud '
    'to seventh street, royal/Kuhn decks, many folds before draws; dealing '
    'by default, by explicit dealable cards, in chunks, in any player order, '
    'and (separate class) unknown "??" down cards revealed at showdown. After '
    'EVERY operation the multiset union of deck, boards, hole cards, burns, '
    'muck and discards is compared with the configured deck, and the shadow '
    'copy taken after the previous operation is diffed to check the '
    'movement rule of that operation type. Non-trivial = the hand saw a '
    'replenishment of the deck from burns/muck/discards, an explicit card, '
    'or an unknown card; distinct by (game, players, automations, mode, '
    'boards, operation-kind sequence).')
ASSUMPTIONS = [
    'explicit cards are chosen by the driver from get_dealable_cards(), the '
    'documented source of recommended cards (strict warnings refuse others)',
    'unknown cards are only dealt face down (an unknown exposed card is '
    'known finding F12 and outside the quantifier)',
]
CASES = {'quick': 16000, 'thorough': 200000}
TIME = {'quick': 70, 'thorough': 540}
MIN_NONTRIVIAL = {'quick': 800, 'thorough': 6000}
NO_ASSERT_SHARDS = True     # odd shards: pokerkit's asserts compiled out
REQUIRED = ('replenishments', 'explicit_cards_dealt', 'unknown_cards_dealt',
            'states_checked', 'muck_moves', 'discard_moves')

PILES = ('deck', 'board', 'hole', 'burn', 'muck', 'discard')


def snapshot(state):
    return {
        'deck': list(state.deck_cards),
        'board': [list(x) for x in state.board_cards],
        'hole': [list(x) for x in state.hole_cards],
        'burn': list(state.burn_cards),
        'muck': list(state.mucked_cards),
        'discard': [list(x) for x in state.discarded_cards],
    }


def flat(snap, pile):
    v = snap[pile]
    if pile in ('board', 'hole', 'discard'):
        return [c for row in v for c in row]
    return list(v)


def initial_snapshot(state):
    return {
        'deck': None, 'board': [], 'hole': [[] for _ in state.player_indices],
        'burn': [], 'muck': [], 'discard': [[] for _ in state.streets],
    }


class CardMonitor(Monitor):

    def on_begin(self, ctx):
        self.shadow = None
        self.unknown_dealt = 0

    def check_multiset(self, ctx, state, snap, where):
        deck = Counter(state.deck)
        known = Counter()
        unknown = 0
        for pile in PILES:
            for c in flat(snap, pile):
                if c:
                    known[c] += 1
                else:
                    unknown += 1
        dup = [c for c, k in known.items() if k > 1]
        if dup:
            ctx.violate(f'{where}: card(s) {dup} present more than once')
        foreign = [c for c in known if c not in deck]
        if foreign:
            ctx.violate(f'{where}: card(s) {foreign} not in the configured '
                        f'deck')
        if not self.unknown_dealt:
            if known != deck:
                lost = list((deck - known).elements())
                ctx.violate(f'{where}: multiset of the six places differs '
                            f'from the deck: lost {lost}')
        else:
            # unknown cards never leave the deck; revealed ones do
            missing = deck - known
            if missing:
                ctx.violate(f'{where}: known cards lost {list(missing)}')
        ctx.counters['states_checked'] += 1

    def on_created(self, ctx, state):
        snap = snapshot(state)
        if self.shadow is None:
            self.check_multiset(ctx, state, snap, 'after construction')
            self.shadow = snap

    def on_op(self, ctx, state, op):
        kind = type(op).__name__
        before = self.shadow or initial_snapshot(state)
        after = snapshot(state)
        where = f'after op #{ctx.nevents} {kind}'
        if before['deck'] is None:
            before['deck'] = list(state.deck)   # before the first operation
            before['deck'] = after['deck'] + [
                c for p in PILES if p != 'deck' for c in flat(after, p) if c]
        reserve_before = (flat(before, 'burn') + flat(before, 'muck')
                          + flat(before, 'discard'))
        reserve_after = (flat(after, 'burn') + flat(after, 'muck')
                         + flat(after, 'discard'))
        inplay_before = flat(before, 'board') + flat(before, 'hole')

        def dealt_from_outside(cards, default_args):
            known = [c for c in cards if c]
            for c in known:
                if c in inplay_before:
                    ctx.violate(f'{where}: dealt card {c!r} was already in '
                                f'play')
            k = len(cards)
            if len(before['deck']) >= k:
                # deck suffices: no replenishment, reserve piles untouched
                # (except the burn pile gaining the burnt card)
                for c in known:
                    if c not in before['deck'] and default_args:
                        ctx.violate(f'{where}: engine-chosen card {c!r} did '
                                    f'not come from the remaining deck')
            else:
                for c in known:
                    if c not in before['deck'] and c not in reserve_before:
                        ctx.violate(f'{where}: card {c!r} came from nowhere')
            for c in cards:
                if not c:
                    self.unknown_dealt += 1
                    ctx.counters['unknown_cards_dealt'] += 1
                    ctx.tag('unknown')

        def reserve_shrank():
            rb = Counter(c for c in reserve_before if c)
            ra = Counter(c for c in reserve_after if c)
            return bool(rb - ra)

        client = ctx.last_client
        default_args = client is None or not client[1]
        if kind in ('CardBurning', 'HoleDealing', 'BoardDealing'):
            cards = (op.card,) if kind == 'CardBurning' else op.cards
            k = len(cards)
            dealt_from_outside(cards, default_args)
            shrank = reserve_shrank()
            if shrank:
                ctx.counters['replenishments'] += 1
                ctx.tag('replenish')
                if len(before['deck']) >= k and all(
                        c in before['deck'] for c in cards if c):
                    ctx.violate(f'{where}: reserve piles were recycled '
                                f'although the deck ({len(before["deck"])} '
                                f'cards) covered the {k} card(s) dealt')
                left = [c for c in reserve_after if c
                        and not (kind == 'CardBurning' and c == op.card)]
                lost = Counter(c for c in reserve_before if c) - Counter(
                    c for c in reserve_after if c)
                if left and (default_args
                             or lost - Counter(c for c in cards if c)):
                    # engine-chosen cards: the whole reserve is recycled;
                    # explicit cards may also be taken straight off a pile
                    ctx.violate(f'{where}: partial replenishment, reserve '
                                f'lost {list(lost.elements())} but still '
                                f'holds {left}')
            if kind == 'CardBurning':
                if not after['burn'] or after['burn'][-1] != op.card:
                    ctx.violate(f'{where}: burnt card not on the burn pile')
                if op.card and not shrank and \
                        len(after['burn']) != len(before['burn']) + 1:
                    ctx.violate(f'{where}: burn pile did not grow by one')
            elif kind == 'HoleDealing':
                i = op.player_index
                exp = before['hole'][i] + list(op.cards)
                if after['hole'][i] != exp:
                    ctx.violate(f'{where}: hole cards of player {i} are '
                                f'{after["hole"][i]}, expected {exp}')
                for j in state.player_indices:
                    if j != i and after['hole'][j] != before['hole'][j]:
                        ctx.violate(f'{where}: hole cards of player {j} '
                                    f'changed')
            else:
                got = Counter(flat(after, 'board')) - Counter(
                    flat(before, 'board'))
                if got != Counter(op.cards):
                    ctx.violate(f'{where}: boards gained {list(got.elements())}'
                                f', operation says {op.cards}')
            if not default_args:
                ctx.counters['explicit_cards_dealt'] += k
                ctx.tag('explicit')
        else:
            lost = Counter(c for c in reserve_before if c) - Counter(
                c for c in reserve_after if c)
            if kind == 'HoleCardsShowingOrMucking':
                # cards revealed in place of unknown ones may come off a pile
                i = op.player_index
                fresh = [c for c in after['hole'][i]
                         if c and c not in before['hole'][i]]
                if fresh and not [c for c in reserve_after if c]:
                    lost = Counter()      # whole reserve recycled for them
                    ctx.counters['replenishments'] += 1
                lost -= Counter(fresh)
            if lost:
                ctx.violate(f'{where}: burn/muck/discard piles lost '
                            f'{list(lost.elements())} outside a dealing '
                            f'operation')
            if after['deck'] != before['deck'] and kind != \
                    'HoleCardsShowingOrMucking':
                ctx.violate(f'{where}: the deck changed')
        if kind in ('Folding', 'HandKilling') or (
                kind == 'HoleCardsShowingOrMucking' and not op.hole_cards
                and before['hole'][op.player_index]):
            i = op.player_index
            moved = before['hole'][i]
            if after['hole'][i]:
                ctx.violate(f'{where}: player {i} still holds cards')
            if after['muck'] != before['muck'] + moved:
                ctx.violate(f'{where}: muck is {after["muck"]}, expected '
                            f'{before["muck"] + moved}')
            ctx.counters['muck_moves'] += 1
        elif kind == 'HoleCardsShowingOrMucking':
            i = op.player_index
            if len(after['hole'][i]) != len(before['hole'][i]):
                ctx.violate(f'{where}: number of hole cards changed')
            kb = Counter(c for c in before['hole'][i] if c)
            ka = Counter(c for c in after['hole'][i] if c)
            fresh = list((ka - kb).elements())
            gone = list((kb - ka).elements())
            nunk_b = sum(1 for c in before['hole'][i] if not c)
            revealed = len(fresh)
            if revealed > nunk_b + len(gone):
                ctx.violate(f'{where}: more cards revealed ({fresh}) than '
                            f'unknown cards held')
            for c in gone:
                # a partial show at the final showdown hides the other
                # cards: they must then be back in the undealt deck
                ctx.counters['unshown_cards_returned_to_deck'] += 1
                if c not in after['deck']:
                    ctx.violate(f'{where}: known card {c!r} left the hand '
                                f'and is not in the deck')
            for a in fresh:
                if a in inplay_before:
                    ctx.violate(f'{where}: revealed card {a!r} was already '
                                f'in play')
            if after['muck'] != before['muck'] and not revealed:
                ctx.violate(f'{where}: showing touched the muck')
            ctx.counters['reveals'] += revealed
        elif kind == 'StandingPatOrDiscarding':
            i = op.player_index
            si = state.street_index
            exp_hole = list(before['hole'][i])
            for c in op.cards:
                if c not in exp_hole:
                    ctx.violate(f'{where}: discarded {c!r} not held')
                else:
                    exp_hole.remove(c)
            if after['hole'][i] != exp_hole:
                ctx.violate(f'{where}: hole cards after discard '
                            f'{after["hole"][i]}, expected {exp_hole}')
            if si is None or after['discard'][si] != \
                    before['discard'][si] + list(op.cards):
                ctx.violate(f'{where}: discards not recorded on the pile of '
                            f'the current street')
            if op.cards:
                ctx.counters['discard_moves'] += 1
        self.check_multiset(ctx, state, after, where)
        self.shadow = after

    def on_call(self, ctx, state, name, args):
        ctx.last_client = (name, args)

    def on_return(self, ctx, state, name, args, result):
        ctx.last_client = None

    def on_call_failed(self, ctx, state, name, args, exc):
        ctx.last_client = None


def make_monitors():
    return [driver.Observer(0.1), driver.Interleaver(),
            driver.KnownCardsRule(), CardMonitor()]


def gen_kwargs(rng):
    k = rng.random()
    if k < 0.3:
        games = gen.DRAW_GAMES
        min_n = 4
    elif k < 0.5:
        games = gen.STUD_GAMES
        min_n = 6
    elif k < 0.6:
        games = ('NoLimitRoyalHoldem', 'NoLimitShortDeckHoldem')
        min_n = 3
    else:
        games = gen.ALL_GAMES
        min_n = 2
    return dict(
        games=games, customs=('kuhn', 'draw5', 'stud5', 'badugi1',
                              'razzdraw', 'random', 'courchevel'),
        p_custom=0.2, chip_types=('int',), max_boards=2, strict_p=1.0,
        min_n=min_n,
        auto_styles=('any', 'typical', 'none', 'all'),
        hostile_chips=rng.random() < 0.5,
    )


def pol_tweak(pol, cfg, rng):
    if rng.random() < 0.12:
        pol['deal'] = 'unknown'
        # unknown hands cannot be shown automatically (outside the
        # quantifier: "hands reaching a showdown are known")
        cfg['autos'] = [a for a in cfg['autos']
                        if a != 'HOLE_CARDS_SHOWING_OR_MUCKING']
    elif rng.random() < 0.15:
        # explicit deals, some calls mixing recorded and unrecorded cards
        pol['deal'] = 'explicit'
        pol['mix_unknown'] = 0.5
        cfg['autos'] = [a for a in cfg['autos']
                        if a not in ('HOLE_CARDS_SHOWING_OR_MUCKING',
                                     'HOLE_DEALING')]
    pol['partial_show'] = rng.random() < 0.3
    if cfg.get('game') in gen.DRAW_GAMES and rng.random() < 0.6:
        pol['policy'] = 'drawheavy'
    elif rng.random() < 0.3:
        pol['policy'] = 'passive'


def nontrivial(ctx):
    return bool(ctx.tags & {'replenish', 'explicit', 'unknown'})


def run_shard(seed, shard, of, tier, deadline):
    return hist.run_history_shard(
        PROP, seed, shard, of, tier, deadline, cases=CASES,
        gen_kwargs=gen_kwargs, make_monitors=make_monitors,
        nontrivial=nontrivial, pol_tweak=pol_tweak)


def replay(payload):
    return hist.replay_history(payload, make_monitors, PROP)
