"""C07 -- every hand runs to completion through the documented phases."""
from __future__ import annotations

import traceback

from vflib import gen, driver, hist
from vflib.driver import Monitor, PHASE, opname

PROP = 'C07'
RULE = (
    '(i) bounded-exhaustive: the COMPLETE decision trees of small games '
    '(2-3 players, stacks of 1-8 chips, hold\'em NL/FL, PLO, Kuhn, razz, '
    'single draw; every fold/call/raise amount/discard/show-or-muck '
    'choice) are walked under the same monitors (vflib.explore); (ii) '
    'seeded random configurations of every family (12 predefined games + '
    'custom street lists, 1-3 boards, 2-9 players, hostile stacks) under '
    'uniformly random subsets of the 11 automations (plus none/all/'
    'all-but-one/only-one), strict warnings, random policy-driven histories '
    'with all-ins on every street and agreed multiple run-outs. At every '
    'decision point the sixteen default-argument queries are evaluated: '
    'exactly one phase is active while status is true, none when false; '
    'every operation (automated ones included, seen through the hook) must '
    'be accepted by the phase automaton; decision-state fingerprints never '
    'repeat and the operation count stays below a bound computed from the '
    'configuration; no available operation and no constructor call may '
    'raise. Non-trivial = a hand with a proper non-empty automation subset '
    'or one that reached showdown / run-outs; distinct by (game, players, '
    'automation subset, mode, boards, operation-kind sequence).')
ASSUMPTIONS = [
    'termination is decided in its bounded form only (operation count below '
    'a configuration-derived bound, no repeated decision state)',
    'run-out counts are chosen by the driver so that the deck can serve '
    'them; unknown cards are not dealt (both outside the quantifier)',
    'int and Fraction chips; a low-rate float/Decimal class exists only to '
    'exhibit known finding inexact_chip_division',
]
CASES = {'quick': 22000, 'thorough': 300000}
TIME = {'quick': 70, 'thorough': 560}
MIN_NONTRIVIAL = {'quick': 1500, 'thorough': 12000}
REQUIRED = ('decisions_checked', 'terminal_states_checked',
            'allin_runout_hands', 'multi_runout_hands',
            'phase_transitions_checked', 'constructor_cascades',
            'trees_completed', 'explored_nodes',
            'forks')

CUSTOMS = ('kuhn', 'draw5', 'stud5', 'greek', 'courchevel', 'holdem8',
           'plo8', 'badugi1', 'razzdraw', 'random', 'openstud', 'drawboard', 'holeboard')

# allowed successor phases (loose automaton; see DESIGN C07)
NEXT = {
    'start': {'ante', 'blind', 'deal'},
    'ante': {'ante', 'collect'},
    'collect': {'blind', 'deal', 'showdown', 'kill', 'push', 'pull'},
    'blind': {'blind', 'deal'},
    'deal': {'deal', 'bet', 'collect', 'showdown', 'kill', 'push'},
    'bet': {'bet', 'collect', 'deal', 'showdown', 'kill', 'push'},
    'showdown': {'showdown', 'deal', 'kill', 'push'},
    'kill': {'kill', 'push'},
    'push': {'push', 'pull'},
    'pull': {'pull'},
}


def fingerprint(s):
    return (
        s.street_index, s.street_return_index, s.street_return_count,
        s.status, s.all_in_status, tuple(s.stacks), tuple(s.bets),
        tuple(s.statuses), tuple(s.ante_posting_statuses),
        s.bet_collection_status,
        tuple(s.blind_or_straddle_posting_statuses), s.card_burning_status,
        tuple(map(len, s.hole_dealing_statuses)),
        tuple(s.board_dealing_counts),
        tuple(s.standing_pat_or_discarding_statuses),
        tuple(s.actor_indices), s.bring_in_status, s.completion_status,
        s.completion_betting_or_raising_count,
        tuple(s.runout_count_selector_statuses), tuple(s.showdown_indices),
        tuple(s.hand_killing_statuses), len(s._sub_pots),
        tuple(s.chips_pulling_statuses),
        tuple(map(tuple, s.hole_cards)), tuple(map(tuple, s.board_cards)),
        tuple(map(len, s.discarded_cards)), len(s.burn_cards),
        tuple(map(tuple, s.hole_card_statuses)), s.runout_count,
    )


class PhaseMonitor(Monitor):

    def on_begin(self, ctx):
        self.phase = 'start'
        self.seen = set()
        self.max_street = -1
        self.returns = 0
        self.pushed = False

    def on_ctor_failed(self, ctx, exc):
        tb = ''.join(traceback.format_exception_only(type(exc), exc)).strip()
        ctx.violate(f'constructor raised on a valid configuration: {tb} '
                    f'[{hist.exc_site(exc)}]', exc=exc)

    def on_created(self, ctx, state):
        if ctx.nevents:
            ctx.counters['constructor_cascades'] += 1

    def on_op(self, ctx, state, op):
        name = opname(op)
        ph = PHASE[name]
        if name == 'show_or_muck_hole_cards' and state.street_index is None:
            # a voluntary show outside the showdown (documented): it belongs
            # to no phase and must not disturb the one that is active
            ctx.counters['voluntary_shows_outside_showdown'] += 1
            return
        if ph not in NEXT[self.phase]:
            ctx.violate(f'phase order: {name} ({ph}) after phase '
                        f'{self.phase} at op #{ctx.nevents}')
        ctx.counters['phase_transitions_checked'] += 1
        si = state.street_index
        if ph in ('deal', 'bet'):
            if si is None:
                ctx.violate(f'{name} with no current street')
            else:
                if si < self.max_street:
                    # a return for another run-out
                    rc = state.runout_count or 1
                    if not (state.street_return_index is not None
                            and si >= state.street_return_index
                            and rc > 1):
                        ctx.violate(f'street went back from '
                                    f'{self.max_street} to {si} without an '
                                    f'agreed extra run-out')
                    if self.last_street == state.street_count - 1 \
                            and si != self.last_street:
                        self.returns += 1
                        if self.returns > rc - 1:
                            ctx.violate(f'{self.returns} returns for '
                                        f'{rc} run-outs')
                self.max_street = max(self.max_street, si)
                self.last_street = si
        if name == 'show_or_muck_hole_cards' and state.status:
            if not (state.all_in_status
                    or si == state.street_count - 1 or si is None):
                ctx.violate('showdown operation before the final street '
                            'without an all-in')
        if ph in ('ante', 'blind') and (state.street_index is not None):
            ctx.violate(f'{name} after the first street started')
        self.phase = ph

    def on_call(self, ctx, state, name, args):
        if name == 'fold':
            i = state.actor_index
            if i is not None and state.bets[i] >= max(state.bets):
                ctx.tag('voluntary-fold')
        if name == 'show_or_muck_hole_cards' and args and args[0] is False:
            ctx.tag('explicit-muck')

    def on_call_failed(self, ctx, state, name, args, exc):
        tb = ''.join(traceback.format_exception_only(type(exc), exc)).strip()
        ctx.violate(
            f'available operation {name}{tuple(args)} raised {tb} '
            f'[{hist.exc_site(exc)}] at op #{ctx.nevents}',
            exc=exc)

    def on_decision(self, ctx, state, avail):
        ctx.counters['decisions_checked'] += 1
        if state.status:
            if not avail:
                ctx.violate(f'status is true but none of the sixteen '
                            f'operations is available (after op '
                            f'#{ctx.nevents}, phase {self.phase})')
                return
            phases = {PHASE[a] for a in avail}
            if len(phases) != 1:
                ctx.violate(f'operations of several phases available at '
                            f'once: {avail}')
            fp = fingerprint(state)
            forked = bool(ctx.script) and ctx.script[-1][0] == '__fork__'
            # (right after the driver moved the hand onto a deepcopy the
            # same decision point is presented once more: not a repetition)
            if fp in self.seen and not forked:
                ctx.violate(f'decision state repeated after op '
                            f'#{ctx.nevents} (no progress)')
            self.seen.add(fp)
        else:
            if avail:
                ctx.violate(f'status is false but {avail} still available')
            ctx.counters['terminal_states_checked'] += 1

    def on_end(self, ctx, state):
        if 'query_exc' in ctx.data:
            exc = ctx.data['query_exc']
            tb = ''.join(traceback.format_exception_only(
                type(exc), exc)).strip()
            ctx.violate(f'a yes/no query or read-only accessor raised {tb} '
                        f'[{hist.exc_site(exc)}] while the client was '
                        f'choosing its next operation (after op '
                        f'#{ctx.nevents})', exc=exc)
        if 'too_long' in ctx.data:
            ctx.violate(f'hand exceeded the operation bound: '
                        f'{ctx.data["too_long"]} client operations')
        if not state.status:
            if self.phase not in ('pull', 'push', 'kill', 'showdown', 'bet',
                                  'collect', 'deal'):
                ctx.violate(f'hand ended in phase {self.phase}')
            if any(state.bets):
                pass    # C01 judges chips
        ks = ctx.kinds
        if 'show_or_muck_hole_cards' in ks:
            ctx.tag('showdown')
        if state.all_in_status and state.board_cards:
            ctx.counters['allin_runout_hands'] += 1
            ctx.tag('allin')
        if (state.runout_count or 1) > 1:
            ctx.counters['multi_runout_hands'] += 1
            ctx.tag('runouts')


def make_monitors():
    return [driver.Observer(), driver.Interleaver(),
            driver.FinalShowdownRule(), driver.DiscardProbe(), PhaseMonitor()]


def gen_kwargs(rng):
    k = rng.random()
    inexact = k < 0.02
    if k > 0.95:
        # 8-9 handed stud played to seventh street (the deck cannot cover
        # the last down cards); see pol_tweak for the unrecorded seats
        return dict(
            games=gen.STUD_GAMES, customs=(), chip_types=('int',),
            strict_p=1.0, min_n=rng.choice([8, 9, 9]), max_boards=1,
            hostile_chips=False,
            auto_styles=('any', 'none', 'typical', 'all'))
    return dict(
        customs=CUSTOMS, p_custom=0.25,
        chip_types=(('float', 'Decimal') if inexact
                    else ('int', 'int', 'int', 'Fraction')),
        max_boards=3, rake_ok=True, divmod_ok=not inexact,
        strict_p=0.97,
        auto_styles=('any', 'any', 'any', 'any', 'none', 'all',
                     'single-off', 'single-on', 'typical'),
    )


def cfg_filter(cfg, rng):
    if not cfg['strict'] and cfg['mode'] != 'CASH_GAME':
        cfg['strict'] = True
    return cfg


def pol_tweak(pol, cfg, rng):
    if cfg.get('game') in gen.STUD_GAMES and cfg['n'] >= 8 and \
            cfg['chip_type'] == 'int' and \
            min(cfg['stacks']) >= 15 * cfg['bb'] * cfg['unit']:
        pol['policy'] = 'passive'
        if rng.random() < 0.7:
            # hand-history style play: one or two seats whose down cards
            # were never recorded (??); they give up on a later street (in
            # a cash game a player may fold without facing a bet), so every
            # hand that reaches the showdown is known
            seats = rng.sample(range(cfg['n']), rng.choice([1, 1, 2]))
            pol['deal'] = 'mixedunknown'
            pol['unknown_seats'] = seats
            pol['unknown_up'] = rng.random() < 0.5
            pol['fold_seats'] = {i: rng.randint(0, 3) for i in seats}
            cfg['autos'] = [a for a in cfg['autos']
                            if a not in ('HOLE_DEALING', 'CARD_BURNING')]
            cfg['mode'] = 'CASH_GAME'
            cfg['strict'] = False
            # deep enough never to be all-in before they give up
            stacks = list(cfg['stacks'])
            for i in seats:
                stacks[i] = 1000 * cfg['bb'] * cfg['unit']
            cfg['stacks'] = stacks
        return
    if rng.random() < 0.15:
        pol['voluntary_show'] = 0.3
    if rng.random() < 0.12:
        # cash games with manual showing: partial and empty shows
        pol['partial_show'] = True
        pol['empty_show'] = True
        cfg['mode'] = 'CASH_GAME'
        cfg['autos'] = [a for a in cfg['autos']
                        if a != 'HOLE_CARDS_SHOWING_OR_MUCKING']
    if rng.random() < 0.4:
        pol['fork_p'] = 0.03     # continue on a deepcopy mid-hand
    if rng.random() < 0.25:
        pol['policy'] = 'allin'
    if rng.random() < (0.2 if pol['policy'] == 'allin' else 0.03):
        pol['muck'] = 'any'
        pol['muck_p'] = rng.choice([0.1, 0.6, 0.9])


def nontrivial(ctx):
    k = len(ctx.cfg['autos'])
    return 0 < k < 11 or bool(ctx.tags & {'showdown', 'allin', 'runouts'})


def classify(ctx, v):
    exc = v.get('exc')
    st = ctx.state
    if exc is None or st is None:
        return None
    site = hist.exc_site(exc)
    if (ctx.cfg['chip_type'] in ('float', 'Decimal')
            and isinstance(exc, AssertionError)
            and 'pot.unraked_amount >= 0' in site):
        return 'inexact_chip_division'
    return None


def run_shard(seed, shard, of, tier, deadline):
    return hist.run_history_shard(
        PROP, seed, shard, of, tier, deadline, cases=CASES,
        explore_s={'quick': 8, 'thorough': 100},
        explore_nodes={'quick': 2500, 'thorough': 40000},
        gen_kwargs=gen_kwargs, make_monitors=make_monitors,
        nontrivial=nontrivial, classify=classify, pol_tweak=pol_tweak,
        cfg_filter=cfg_filter)


def replay(payload):
    return hist.replay_history(payload, make_monitors, PROP, classify)
