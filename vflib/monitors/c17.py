"""C17 -- ACPC and Pluribus protocol output describes the hand that was
played (independent renderer from the operation log + loop closure through
from_acpc_protocol)."""
from __future__ import annotations

import random
import time
import warnings

from vflib import load, gen, driver, hist
from vflib.run import Shard, shard_seed, sig
import pokerkit
from pokerkit import HandHistory, Automation, Mode
from pokerkit import games as pk_games

PROP = 'C17'
RULE = (
    'seeded random fixed-limit and no-limit hold\'em hands (2-6 players, '
    'equal starting stacks, blinds only, known cards, any automation subset '
    'and dealing style in the original, folds / calls / raises / all-ins, '
    'ended before or at showdown) are turned into a HandHistory. An '
    'independent renderer computes, from the operation log alone, the '
    'betting string (f / c / r<total chips committed> in no-limit, r in '
    'fixed-limit, "/" per street), the hole cards visible from each seat and '
    'the board groups; it must equal to_pluribus_protocol() (all seats, '
    'result field = payoffs) and, for EVERY viewer seat, the complete '
    'sequence of S-> / <-C messages of to_acpc_protocol(). Loop closure: '
    'the line is parsed back with from_acpc_protocol(game, stack, line); the '
    'parsed history must replay to the same betting actions, board and '
    'final stacks, and (no-limit) render to the same line again. '
    'Non-trivial = a hand with >= 1 raise and >= 2 streets; distinct by '
    '(variant, players, betting string shape).')
ASSUMPTIONS = [
    'blinds only and equal stacks (with antes the "chips committed" of the '
    'writer would include the ante, which the parser does not subtract)',
]
CASES = {'quick': 6000, 'thorough': 90000}
TIME = {'quick': 75, 'thorough': 560}
MIN_NONTRIVIAL = {'quick': 500, 'thorough': 4000}
REQUIRED = ('explicit_hand_numbers_compared', 'pluribus_lines_compared',
            'acpc_viewer_sequences_compared',
            'loops_closed', 'fixed_limit_hands', 'no_limit_hands',
            'allin_hands', 'showdown_hands', 'folded_out_hands',
            'raise_amounts_rendered', 'min_bet_differs_from_big_blind',
            'hands_with_manual_mucks', 'post_hand_voluntary_shows',
            'multi_line_logs_parsed', 'parsed_with_the_other_mode')


def render(state, variant, hand_number, players=None):
    """Independent rendering from the log: (actions, holes, board, payoffs,
    per-seat message sequences)."""
    n = state.player_count
    committed = [0] * n
    bet = [0] * n
    actions = ''
    board = ''
    holes = [['', ''] for _ in range(n)]          # what everybody may see
    dealt = [['', ''] for _ in range(n)]          # what each seat was dealt
    shown = [['', ''] for _ in range(n)]          # what was tabled so far
    views = {p: [] for p in range(n)}
    nboard = 0

    def matchstate(p):
        hv = [list(shown[i]) for i in range(n)]
        hv[p] = [a or b for a, b in zip(dealt[p], shown[p])]
        h = '|'.join(''.join(x) for x in hv)
        return f'MATCHSTATE:{p}:{hand_number}:{actions}:{h}{board}'

    for op in state.operations:
        k = type(op).__name__
        if k == 'BlindOrStraddlePosting' or k == 'AntePosting':
            committed[op.player_index] += op.amount
            if k == 'BlindOrStraddlePosting':
                bet[op.player_index] += op.amount
        elif k == 'BetCollection':
            for i in range(n):
                committed[i] -= bet[i] - op.bets[i]
                bet[i] = 0
        elif k == 'HoleDealing':
            got = [c for c in dealt[op.player_index] if c]
            for c in op.cards:
                j = len(got)
                if j < 2:
                    dealt[op.player_index][j] = repr(c) if c else ''
                    if c:
                        holes[op.player_index][j] = repr(c)
                    got.append(c)
        elif k == 'BoardDealing':
            # hold'em: flop (3 cards), turn, river; a street dealt in
            # several chunks is still one street
            for c in op.cards:
                if nboard in (0, 3, 4):
                    actions += '/'
                    board += '/'
                board += repr(c)
                nboard += 1
        elif k == 'HoleCardsShowingOrMucking':
            for j, c in enumerate(op.hole_cards[:2]):
                if c:
                    shown[op.player_index][j] = repr(c)
                    holes[op.player_index][j] = repr(c)
        elif k in ('Folding', 'CheckingOrCalling',
                   'CompletionBettingOrRaisingTo'):
            i = op.player_index
            for p in range(n):
                views[p].append(('S->', matchstate(p) + '\r\n'))
            before = {p: matchstate(p) for p in range(n)}
            if k == 'Folding':
                a = 'f'
            elif k == 'CheckingOrCalling':
                a = 'c'
                committed[i] += op.amount
                bet[i] += op.amount
            else:
                committed[i] += op.amount - bet[i]
                bet[i] = op.amount
                a = 'r' if variant == 'FT' else f'r{committed[i]}'
            actions += a
            views[i].append(('<-C', f'{before[i]}:{a}\r\n'))
    if not state.status or state.actor_index is not None:
        for p in range(n):
            views[p].append(('S->', matchstate(p) + '\r\n'))
    payoffs = [f - s for s, f in zip(state.starting_stacks, state.stacks)]
    names = players or [f'p{i + 1}' for i in range(n)]
    line = (f'STATE:{hand_number}:{actions}:'
            f'{"|".join("".join(h) for h in holes)}{board}:'
            f'{"|".join(map(str, payoffs))}:{"|".join(names)}')
    return actions, line, views


def betting_of(state):
    out = []
    for op in state.operations:
        k = type(op).__name__
        if k == 'Folding':
            out.append(('f', op.player_index))
        elif k == 'CheckingOrCalling':
            out.append(('c', op.player_index, op.amount))
        elif k == 'CompletionBettingOrRaisingTo':
            out.append(('r', op.player_index, op.amount))
        elif k == 'BoardDealing':
            out.append(('/', tuple(op.cards)))
    return out


def gen_cfg(rng):
    ft = rng.random() < 0.4
    n = rng.randint(2, 6)
    bb = rng.choice([2, 2, 10, 100])
    sb = bb // 2
    stack = rng.choice([bb, 3 * bb, 10 * bb, 20 * bb, 100 * bb, 200 * bb,
                        rng.randint(2, 60) * bb])
    name = 'FixedLimitTexasHoldem' if ft else 'NoLimitTexasHoldem'
    # the no-limit minimum bet is a game parameter of its own: usually the
    # big blind, but not necessarily
    mb = bb if rng.random() < 0.7 else rng.choice([sb, 2 * bb, 1, 3 * sb])
    gargs = [rng.random() < 0.5, 0, (sb, bb)] + (
        [bb, 2 * bb] if ft else [mb])
    cfg = {
        'chip_type': 'int', 'kind': 'game', 'game': name, 'gargs': gargs,
        'autos': gen.gen_autos(rng, rng.choice(['any', 'typical', 'all',
                                                'none'])),
        'mode': rng.choice(['TOURNAMENT', 'CASH_GAME']), 'boards': 1,
        'stacks': [stack] * n if rng.random() < 0.5 else stack, 'n': n,
        'rake': None, 'divmod': None, 'seed': rng.getrandbits(48),
        'strict': True, 'unit': 1, 'bb': bb,
    }
    if cfg['mode'] == 'CASH_GAME' and \
            'RUNOUT_COUNT_SELECTION' not in cfg['autos']:
        cfg['autos'].append('RUNOUT_COUNT_SELECTION')
    return cfg, stack


def check_case(res, rng):
    cfg, stack = gen_cfg(rng)
    pol = driver.gen_policy(rng)
    pol['policy'] = rng.choice(['uniform', 'aggressive', 'passive', 'allin',
                                'foldy'])
    pol['partial_show'] = False
    if pol['deal'] in ('unknown',):
        pol['deal'] = 'default'
    if cfg['mode'] == 'CASH_GAME' and rng.random() < 0.2:
        cfg['strict'] = False          # open folds (warned, not refused)
        pol['policy'] = 'foldy'
    if rng.random() < 0.12:
        # players who muck hands the automation would have shown (winners
        # included): the recorded muck must stay a muck
        pol['muck'] = 'any'
        pol['muck_p'] = rng.choice([0.3, 0.6])
        pol['policy'] = 'passive'
        cfg['autos'] = [a for a in cfg['autos']
                        if a != 'HOLE_CARDS_SHOWING_OR_MUCKING']
    ctx = driver.play_hand(cfg, pol, [], PROP)
    if ctx.state is None or 'ctor_exc' in ctx.data or 'op_exc' in ctx.data \
            or ctx.state.status:
        res.counters['aborted'] += 1
        return
    s = ctx.state
    res.evaluations += 1
    if rng.random() < 0.25:
        # the winner of a pot nobody called turns his cards over afterwards
        # (a trailing 'pN sm XxYy' line in the history)
        for i in s.player_indices:
            if s.statuses[i] and s.hole_cards[i] and all(s.hole_cards[i]) \
                    and not all(s.hole_card_statuses[i]) and \
                    s.can_show_or_muck_hole_cards(True, i):
                s.show_or_muck_hole_cards(True, i)
                ctx.script.append(['show_or_muck_hole_cards', [True, i]])
                res.counters['post_hand_voluntary_shows'] += 1
                break
    if any(type(o).__name__ == 'HoleCardsShowingOrMucking'
           and not o.hole_cards for o in s.operations) and \
            'HOLE_CARDS_SHOWING_OR_MUCKING' not in cfg['autos']:
        res.counters['hands_with_manual_mucks'] += 1
    if not cfg['game'].startswith('Fixed') and cfg['gargs'][3] != cfg['bb']:
        res.counters['min_bet_differs_from_big_blind'] += 1
    variant = 'FT' if cfg['game'].startswith('Fixed') else 'NT'
    res.counters['fixed_limit_hands' if variant == 'FT'
                 else 'no_limit_hands'] += 1
    game = gen.build_game(cfg)
    hand_number = rng.randint(0, 99999)
    names = None
    if rng.random() < 0.3:
        names = rng.sample(['Alice', 'Bob', 'Carol', 'Dave', 'Eve',
                            'Frank'], cfg['n'])
    payload = {'cfg': hist.enc_cfg(cfg), 'script': ctx.script, 'pol': pol,
               'hand': hand_number, 'names': names}
    what = gen.describe(cfg)
    kw = {'hand': hand_number}
    if names:
        kw['players'] = names
    with warnings.catch_warnings():
        warnings.simplefilter('ignore')
        try:
            hh = HandHistory.from_game_state(game, s, **kw)
            final = list(hh)[-1]
        except Exception as exc:   # noqa: BLE001
            res.violation(f'history could not be built/replayed: '
                          f'{type(exc).__name__}: {exc} || {what}', payload)
            return
        if list(final.stacks) != list(s.stacks):
            res.counters['replay_differs_from_original'] += 1
        # the expected protocol text is rendered from the hand that was
        # PLAYED (not from the library's own replay of its history, which
        # goes through the code under test)
        actions, line, views = render(s, variant, hand_number, names)
        if s.all_in_status:
            res.counters['allin_hands'] += 1
        if sum(s.statuses) > 1 or any(
                type(o).__name__ == 'HoleCardsShowingOrMucking'
                for o in s.operations):
            res.counters['showdown_hands'] += 1
        else:
            res.counters['folded_out_hands'] += 1
        res.counters['raise_amounts_rendered'] += actions.count('r')
        # Pluribus
        if variant == 'NT':
            try:
                got = hh.to_pluribus_protocol()
            except Exception as exc:   # noqa: BLE001
                res.violation(f'to_pluribus_protocol raised '
                              f'{type(exc).__name__}: {exc} || {what}',
                              payload)
                return
            res.counters['pluribus_lines_compared'] += 1
            if got != line:
                res.violation(f'to_pluribus_protocol() = {got!r}, the log '
                              f'says {line!r} || {what}', payload)
                return
        else:
            try:
                hh.to_pluribus_protocol()
            except ValueError:
                pass
            else:
                res.violation('to_pluribus_protocol accepted a fixed-limit '
                              'history', payload)
        # ACPC, every viewer seat
        for p in range(cfg['n']):
            try:
                got = list(hh.to_acpc_protocol(p))
            except Exception as exc:   # noqa: BLE001
                res.violation(f'to_acpc_protocol({p}) raised '
                              f'{type(exc).__name__}: {exc} || {what}',
                              payload)
                return
            res.counters['acpc_viewer_sequences_compared'] += 1
            if got != views[p]:
                k = next((i for i, (x, y) in enumerate(zip(got, views[p]))
                          if x != y), min(len(got), len(views[p])))
                res.violation(
                    f'to_acpc_protocol(position={p}) message #{k}: '
                    f'{got[k] if k < len(got) else None!r}, the log says '
                    f'{views[p][k] if k < len(views[p]) else None!r} '
                    f'({len(got)} vs {len(views[p])} messages) || {what}',
                    payload)
                return
        # an explicit hand number takes precedence over the history's own
        # `hand` field (documented: the field is used "if None")
        other = hand_number + rng.randint(1, 5000)
        _, line2, views2 = render(s, variant, other, names)
        p = rng.randrange(cfg['n'])
        try:
            got = list(hh.to_acpc_protocol(p, other))
            got_line = (hh.to_pluribus_protocol(other)
                        if variant == 'NT' else line2)
        except Exception as exc:   # noqa: BLE001
            res.violation(f'protocol output with an explicit hand number '
                          f'raised {type(exc).__name__}: {exc} || {what}',
                          payload)
            return
        res.counters['explicit_hand_numbers_compared'] += 1
        if got != views2[p] or got_line != line2:
            res.violation(
                f'hand field {hand_number}, explicit hand_number {other}: '
                f'to_acpc_protocol({p}, {other}) starts {got[:1]!r} / '
                f'pluribus {got_line[:40]!r}, expected {views2[p][:1]!r} / '
                f'{line2[:40]!r} || {what}', payload)
            return
        # loop closure (the protocol line shows every seat's cards and has
        # no way to say "this hand was mucked": hands in which a player
        # mucked a hand the automatic rule would have shown cannot come back
        # from the line, and are judged on the renderers only)
        if pol.get('muck') == 'any':
            res.counters['renderer_only_hands'] += 1
            res.sigs.add(sig(variant, cfg['n'], 'mucks', line.split(':')[2]))
            return
        # the game handed to the parser is "the same game": same stakes,
        # but not necessarily built in the same mode as the table the hand
        # was played at (the protocol has no notion of it)
        pgame = game
        if rng.random() < 0.5:
            other = 'TOURNAMENT' if cfg['mode'] == 'CASH_GAME' else \
                'CASH_GAME'
            pgame = gen.build_game(dict(cfg, mode=other))
            res.counters['parsed_with_the_other_mode'] += 1
        try:
            parsed = list(HandHistory.from_acpc_protocol(
                pgame, stack, line, error_status=True))
        except Exception as exc:   # noqa: BLE001
            res.violation(f'from_acpc_protocol refused the line {line!r}: '
                          f'{type(exc).__name__}: {exc} || {what}', payload)
            return
        if len(parsed) != 1:
            res.violation(f'from_acpc_protocol yielded {len(parsed)} '
                          f'histories for one line || {what}', payload)
            return
        hh2 = parsed[0]
        try:
            final2 = list(hh2)[-1]
        except Exception as exc:   # noqa: BLE001
            res.violation(f'parsed history does not replay: '
                          f'{type(exc).__name__}: {exc} || {line}', payload)
            return
        res.counters['loops_closed'] += 1
        if list(final2.stacks) != list(s.stacks) or final2.status:
            res.violation(f'line {line!r} parses to a history ending with '
                          f'stacks {final2.stacks}, the hand ended with '
                          f'{s.stacks} || {what}', payload)
            return
        if betting_of(final2) != betting_of(final):
            res.violation(f'line {line!r} parses to different betting '
                          f'actions/boards: {betting_of(final2)} vs '
                          f'{betting_of(final)} || {what}', payload)
            return
        if variant == 'NT':
            again = hh2.to_pluribus_protocol()
            if again != line:
                res.violation(f'parse -> render gives {again!r}, not the '
                              f'original line {line!r} || {what}', payload)
                return
        if variant == 'NT' and rng.random() < 0.15:
            # a LOG of several lines parsed in one call: every line must
            # come out as it does when it is parsed alone
            lines = [line]
            for _ in range(rng.randint(1, 2)):
                cfg2 = dict(cfg, seed=rng.getrandbits(48))
                pol2 = driver.gen_policy(rng)
                pol2['partial_show'] = False
                if pol2['deal'] == 'unknown':
                    pol2['deal'] = 'default'
                c2 = driver.play_hand(cfg2, pol2, [], PROP)
                if c2.state is None or c2.state.status or \
                        'op_exc' in c2.data or 'ctor_exc' in c2.data:
                    continue
                try:
                    lines.append(HandHistory.from_game_state(
                        game, c2.state, hand=rng.randint(0, 99999)
                    ).to_pluribus_protocol())
                except Exception:    # noqa: BLE001
                    continue
            if len(lines) > 1:
                res.counters['multi_line_logs_parsed'] += 1
                try:
                    joint = list(HandHistory.from_acpc_protocol(
                        game, stack, '\n'.join(lines), error_status=True))
                    single = [list(HandHistory.from_acpc_protocol(
                        game, stack, ln, error_status=True))[0]
                        for ln in lines]
                except Exception as exc:   # noqa: BLE001
                    res.violation(
                        f'a log of {len(lines)} lines could not be parsed '
                        f'({type(exc).__name__}: {exc}) although each line '
                        f'parses alone: {lines} || {what}', payload)
                    return
                if len(joint) != len(single) or any(
                        a.actions != b.actions
                        or list(a.starting_stacks) != list(b.starting_stacks)
                        for a, b in zip(joint, single)):
                    k = next((i for i, (a, b) in enumerate(zip(joint, single))
                              if a.actions != b.actions), len(joint))
                    res.violation(
                        f'line #{k} of a {len(lines)}-line log parses to '
                        f'{joint[k].actions if k < len(joint) else None}, '
                        f'alone it parses to '
                        f'{single[k].actions if k < len(single) else None}: '
                        f'{lines} || {what}', payload)
                    return
    if 'r' in actions and '/' in actions:
        shape = ''.join(c for c in actions if not c.isdigit())
        res.sigs.add(sig(variant, cfg['n'], shape))
        res.add_sample({'config': what, 'line': line})


def run_shard(seed, shard, of, tier, deadline):
    res = Shard()
    rng = random.Random(shard_seed(seed, PROP, shard))
    n = max(1, CASES[tier] // of)
    for k in range(n):
        if time.time() > deadline:
            res.truncated = True
            break
        check_case(res, rng)
    return res


def replay(payload):
    cfg = hist.dec_cfg(payload['cfg'])
    ctx = driver.replay_script(cfg, payload['script'], [], PROP)
    s = ctx.state
    game = gen.build_game(cfg)
    variant = 'FT' if cfg['game'].startswith('Fixed') else 'NT'
    kw = {'hand': payload['hand']}
    if payload.get('names'):
        kw['players'] = payload['names']
    out = []
    with warnings.catch_warnings():
        warnings.simplefilter('ignore')
        hh = HandHistory.from_game_state(game, s, **kw)
        final = list(hh)[-1]
        actions, line, views = render(final, variant, payload['hand'],
                                      payload.get('names'))
        if variant == 'NT' and hh.to_pluribus_protocol() != line:
            out.append({'what': f'pluribus {hh.to_pluribus_protocol()!r} '
                        f'vs log {line!r}', 'kf': None})
        for p in range(cfg['n']):
            if list(hh.to_acpc_protocol(p)) != views[p]:
                out.append({'what': f'acpc view {p} differs', 'kf': None})
        other = payload['hand'] + 17
        _, line2, views2 = render(final, variant, other,
                                  payload.get('names'))
        if list(hh.to_acpc_protocol(0, other)) != views2[0] or (
                variant == 'NT' and hh.to_pluribus_protocol(other) != line2):
            out.append({'what': 'an explicit hand number does not take '
                        'precedence over the hand field', 'kf': None})
        stack = cfg['stacks'][0] if isinstance(cfg['stacks'], list) \
            else cfg['stacks']
        try:
            hh2 = list(HandHistory.from_acpc_protocol(
                game, stack, line, error_status=True))[0]
            final2 = list(hh2)[-1]
            if list(final2.stacks) != list(s.stacks) or \
                    betting_of(final2) != betting_of(final):
                out.append({'what': 'loop closure differs', 'kf': None})
        except Exception as exc:   # noqa: BLE001
            out.append({'what': f'loop closure raised {exc}', 'kf': None})
    return out
