"""C02 -- every pot goes to the best eligible live hand(s), in the right
amounts (offline checker over the operation log + independent pot model)."""
from __future__ import annotations

from vflib import gen, driver, hist
from vflib.driver import Monitor
from vflib.ref import payout

PROP = 'C02'
RULE = (
    '(i) bounded-exhaustive: the COMPLETE decision trees of small games '
    '(2-3 players, stacks of 1-8 chips, hold\'em NL/FL, PLO, Kuhn, razz, '
    'single draw; every fold/call/raise amount/discard/show-or-muck '
    'choice) are walked under the same monitors (vflib.explore); (ii) '
    'seeded random hands pushed towards showdowns (passive/aggressive/all-in '
    'policies), 2-9 players with unequal tiny stacks, all 12 predefined '
    'games + custom hi-lo hold\'em, PLO8, Greek, Courchevel-like and draw '
    'games, 1-3 boards and agreed run-outs, trimmed and untrimmed antes, '
    'percentage/cap/no-flop-no-drop rake, int, Fraction and Decimal chips '
    '(Decimal within 1e-9 of the chips in play). When a '
    'hand ends, an independent model recomputes contributions from the '
    'operation log, builds side pots and eligibility, and checks the pushes '
    'against constraints 0-6 of DESIGN C02 (pot totals, even board split, '
    'winners per hand type among ELIGIBLE players, equal shares, odd chips '
    'to the earliest winner, nothing to dead hands, win bound, payoffs). '
    'Non-trivial = at least two live hands when pushing starts; distinct by '
    '(game, players, automations, mode, boards, operation-kind sequence).')
ASSUMPTIONS = [
    'hand strength comes from the independent evaluator of C04/C05 '
    '(vflib.ref.handrank) on the TABLED cards; the engine\'s own ranking of '
    'the same cards is cross-checked and a disagreement is a violation',
    'the number of boards is taken from the log (starting boards x agreed '
    'run-outs), the board cards themselves from get_board_cards',
    'a pot layer no live player reached is contested by the pot below '
    '(the behaviour introduced by the ownerless-pot repair, see DESIGN §3)',
    'default divmod only (a custom divmod redefines "equal share")',
]
CASES = {'quick': 20000, 'thorough': 260000}
TIME = {'quick': 70, 'thorough': 560}
MIN_NONTRIVIAL = {'quick': 600, 'thorough': 6000}
NO_ASSERT_SHARDS = True     # odd shards: pokerkit's asserts compiled out
REQUIRED = ('showdowns_checked', 'side_pot_showdowns', 'tied_pots',
            'multi_board_showdowns', 'hilo_showdowns',
            'lone_survivor_hands', 'raked_showdowns',
            'low_not_qualified_showdowns', 'odd_chip_pushes',
            'trees_completed', 'explored_nodes',
            'forks')

CUSTOMS = ('holdem8', 'plo8', 'greek', 'courchevel', 'draw5', 'badugi1',
           'stud5', 'kuhn', 'razzdraw', 'random')


class PayoutMonitor(Monitor):

    def on_begin(self, ctx):
        self.live = None
        self.hole = None

    def on_op(self, ctx, state, op):
        if type(op).__name__ == 'ChipsPushing' and self.live is None:
            self.live = list(state.statuses)
            self.hole = [list(h) for h in state.hole_cards]
            # what a player has TABLED is what plays (a live player who keeps
            # cards face down plays the board / his up cards only)
            self.up = [[c for c, u in zip(h, st) if u] for h, st in zip(
                state.hole_cards, state.hole_card_statuses)]
            if any(self.live[i] and len(self.up[i]) < len(self.hole[i])
                   for i in state.player_indices) and sum(self.live) > 1:
                ctx.counters['showdowns_with_cards_kept_face_down'] += 1

    def on_end(self, ctx, state):
        if state.status or 'op_exc' in ctx.data:
            return
        live = self.live if self.live is not None else list(state.statuses)
        hole = self.hole if self.hole is not None else [
            list(h) for h in state.hole_cards]
        tabled = getattr(self, 'up', None)
        if self.live is None or tabled is None:
            tabled = hole
        # (cards kept face down do not play and may be unknown placeholders;
        # only an unknown card among the TABLED ones makes the hand
        # unjudgeable)
        if any(not c for i, h in enumerate(tabled) if live[i] for c in h):
            ctx.counters['skipped_unknown_cards'] += 1
            return
        vs, pots, facts = payout.check(state, live, tabled)
        for x in vs[:4]:
            ctx.violate(x)
        if facts.get('nobody_live'):
            ctx.counters['nobody_live_at_push'] += 1
            return
        if sum(live) == 1:
            ctx.counters['lone_survivor_hands'] += 1
            ctx.tag('lone')
            return
        ctx.counters['showdowns_checked'] += 1
        ctx.tag('showdown')
        if len(pots) > 1:
            ctx.counters['side_pot_showdowns'] += 1
            ctx.tag('side-pots')
        if len(pots) > 2:
            ctx.counters['three_plus_pots'] += 1
        if facts.get('ties'):
            ctx.counters['tied_pots'] += 1
            ctx.tag('tie')
        if state.board_count > 1:
            ctx.counters['multi_board_showdowns'] += 1
            ctx.tag('multi-board')
        if len(state.hand_types) > 1:
            ctx.counters['hilo_showdowns'] += 1
            pushed_types = {o.hand_type_index for o in state.operations
                            if type(o).__name__ == 'ChipsPushing'}
            if 1 not in pushed_types:
                ctx.counters['low_not_qualified_showdowns'] += 1
        if ctx.cfg['rake']:
            ctx.counters['raked_showdowns'] += 1
        if ctx.cfg['chip_type'] == 'Decimal':
            ctx.counters['decimal_chip_showdowns'] += 1
        for o in state.operations:
            if type(o).__name__ == 'ChipsPushing':
                pos = [a for a in o.amounts if a]
                if len(pos) > 1 and len(set(pos)) > 1:
                    ctx.counters['odd_chip_pushes'] += 1
                    break


def make_monitors():
    return [driver.Observer(), PayoutMonitor()]


def gen_kwargs(rng):
    return dict(
        customs=CUSTOMS, p_custom=0.3,
        games=gen.ALL_GAMES + gen.HILO_GAMES * 3,
        chip_types=('int', 'int', 'int', 'Fraction', 'Decimal'),
        max_boards=3, rake_ok=True, divmod_ok=False, strict_p=1.0,
        auto_styles=('any', 'all', 'typical'),
    )


def pol_tweak(pol, cfg, rng):
    if rng.random() < 0.25:
        # rigged deals: made-hand boards and hole cards from their
        # neighbourhood (playing the board, counterfeits, exact ties)
        pol['deal'] = 'rigged'
        cfg['autos'] = [a for a in cfg['autos']
                        if a not in ('HOLE_DEALING', 'BOARD_DEALING')]
    if rng.random() < 0.15:
        pol['partial_show'] = True      # cash games: some cards kept down
        pol['empty_show'] = True
        cfg['mode'] = 'CASH_GAME'
        cfg['autos'] = [a for a in cfg['autos']
                        if a != 'HOLE_CARDS_SHOWING_OR_MUCKING']
        if rng.random() < 0.6:
            # ... on boards that play (a hand kept face down ties with it)
            pol['deal'] = 'rigged'
            cfg['autos'] = [a for a in cfg['autos']
                            if a not in ('HOLE_DEALING', 'BOARD_DEALING')]
    if rng.random() < 0.4:
        pol['fork_p'] = 0.03     # continue on a deepcopy mid-hand
    pol['policy'] = rng.choice(['passive', 'passive', 'aggressive', 'allin',
                                'uniform'])
    if pol.get('empty_show'):
        pol['policy'] = 'passive'


def nontrivial(ctx):
    return 'showdown' in ctx.tags


def run_shard(seed, shard, of, tier, deadline):
    return hist.run_history_shard(
        PROP, seed, shard, of, tier, deadline, cases=CASES,
        explore_s={'quick': 8, 'thorough': 100},
        explore_nodes={'quick': 2500, 'thorough': 40000},
        gen_kwargs=gen_kwargs, make_monitors=make_monitors,
        nontrivial=nontrivial, pol_tweak=pol_tweak)


def replay(payload):
    return hist.replay_history(payload, make_monitors, PROP)
