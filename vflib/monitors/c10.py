"""C10 -- dealing follows the street definitions (trace checker per street,
from the Street tuple, not from State._begin_dealing)."""
from __future__ import annotations

from vflib import gen, driver, hist
from vflib.driver import Monitor, opname, PHASE
from pokerkit import Street, Opening

PROP = 'C10'
RULE = (
    'seeded random hands of all families (flop, stud, single/triple draw, '
    'custom street lists incl. mixed up/down cards followed by draws, '
    '1-3 boards), folds at every point, all-ins and run-outs, manual dealing '
    'in random chunk sizes and explicit player order as well as default and '
    'automated dealing, 7-8 handed stud for the deck-exhaustion fallback. '
    'Per street instance the monitor derives from the Street tuple what '
    'must happen for the players live when the street starts and checks '
    'every dealing operation against it: burn exactly when prescribed and '
    'before the cards (after the discards in a draw round); each live player '
    'gets exactly the prescribed hole cards with the prescribed facings in '
    'order, nobody else any; default-argument dealing goes in position order '
    'one card per round; each board gets exactly the prescribed number; each '
    'live player draws once, discards only held cards (every draw decision '
    'is probed with the whole hand, a held card named twice, other players\' '
    'cards and an undealt card) and gets back as many '
    'with the same facings; no actor and no betting operation before the '
    'street is completely dealt; the hole-to-board fallback when the cards '
    'cannot cover a street. Street(...) is probed with invalid combinations. '
    'Non-trivial = a hand with >= 2 completely checked streets; distinct by '
    '(game, players, automations, mode, boards, operation-kind sequence).')
ASSUMPTIONS = [
    'in a draw round the default dealee is the first player (by position) '
    'still owed replacement cards (he receives all of them before the next)',
]
CASES = {'quick': 16000, 'thorough': 220000}
TIME = {'quick': 70, 'thorough': 560}
MIN_NONTRIVIAL = {'quick': 1500, 'thorough': 15000}
NO_ASSERT_SHARDS = True     # odd shards: pokerkit's asserts compiled out
REQUIRED = ('streets_completed', 'draw_rounds_checked', 'burns_checked',
            'default_dealee_checks', 'explicit_player_deals',
            'chunked_deals', 'fallback_streets', 'folded_player_streets',
            'discard_probes', 'board_sizes_checked',
            'multi_board_streets', 'street_validation_probes',
            'mixed_facing_draws',
            'interleave_points',
            'forks')

CUSTOMS = ('kuhn', 'draw5', 'stud5', 'greek', 'courchevel', 'holdem8',
           'plo8', 'badugi1', 'razzdraw', 'random', 'studdraw', 'openstud',
           'studboard', 'studboard', 'drawboard', 'holeboard')
DEALING = ('CardBurning', 'HoleDealing', 'BoardDealing',
           'StandingPatOrDiscarding')
BETTING = ('Folding', 'CheckingOrCalling', 'BringInPosting',
           'CompletionBettingOrRaisingTo')


class StreetRec:

    def __init__(self, s, already):
        st = s.street
        self.index = s.street_index
        self.street = st
        self.live = [i for i in s.player_indices if s.statuses[i]]
        n_hole = len(st.hole_dealing_statuses)
        # cards that can still be dealt, counted from the raw piles: the
        # deck plus the KNOWN cards of burns, muck and discards (an unknown
        # placeholder cannot be dealt again)
        dealable = len(s.deck_cards) + sum(
            1 for c in s.burn_cards if c) + sum(
            1 for c in s.mucked_cards if c) + sum(
            1 for pile in s.discarded_cards for c in pile if c) + already
        self.fallback = n_hole * len(self.live) > dealable
        b = s.starting_board_count
        if self.fallback:
            self.need_hole = {i: [] for i in self.live}
            self.need_board = (st.board_dealing_count + n_hole) * b
        else:
            self.need_hole = {i: list(st.hole_dealing_statuses)
                              for i in self.live}
            self.need_board = st.board_dealing_count * b
        self.per_board = self.need_board // b
        self.board_left = [self.per_board] * b
        self.burn_needed = bool(st.card_burning_status)
        self.burned = False
        self.draw_pending = list(self.live) if st.draw_status else []
        self.cards_started = False
        self.nops = 0

    def complete(self):
        return (not any(self.need_hole.values()) and self.need_board == 0
                and (self.burned or not self.burn_needed)
                and not self.draw_pending)


class DealMonitor(Monitor):

    def on_begin(self, ctx):
        self.cur = None
        self.extra_board = 0
        self.done = 0
        ctx.last_client = None

    def on_call(self, ctx, s, name, args):
        ctx.last_client = (name, args)

    def on_return(self, ctx, s, name, args, result):
        ctx.last_client = None

    def on_call_failed(self, ctx, s, name, args, exc):
        ctx.last_client = None

    def _finish(self, ctx, why):
        c = self.cur
        if c is None:
            return
        if not c.complete():
            ctx.violate(
                f'street {c.index} left incomplete ({why}): still owed hole '
                f'cards { {i: len(v) for i, v in c.need_hole.items() if v} },'
                f' board cards {c.need_board}, burn done {c.burned}/'
                f'{c.burn_needed}, draws pending {c.draw_pending}')
        else:
            self.done += 1
            ctx.counters['streets_completed'] += 1
            if c.fallback:
                ctx.counters['fallback_streets'] += 1
                ctx.tag('fallback')
            if c.street.draw_status:
                ctx.counters['draw_rounds_checked'] += 1
        self.cur = None

    def _ensure(self, ctx, s, already=0):
        """Open a street record if none is open for the current street."""
        if s.street_index is None:
            return None
        if self.cur is not None and (self.cur.index != s.street_index):
            self._finish(ctx, 'next street started')
        if self.cur is None:
            self.cur = StreetRec(s, already)
            if self.cur.fallback:
                ctx.data['c10_fallback_streets'] = ctx.data.get(
                    'c10_fallback_streets', 0) + 1
                # community cards dealt instead of hole cards stay on the
                # boards for the rest of the hand
                self.extra_board = getattr(self, 'extra_board', 0) + len(
                    s.street.hole_dealing_statuses)
            if len(self.cur.live) < s.player_count:
                ctx.counters['folded_player_streets'] += 1
            if s.starting_board_count > 1 and self.cur.need_board:
                ctx.counters['multi_board_streets'] += 1
        return self.cur

    def _check_boards(self, ctx, s, where):
        """Each board holds exactly what the streets dealt so far prescribe
        (looked up in the state, not in the operation records)."""
        if s.street_index is None:
            return
        exp = sum(st.board_dealing_count
                  for st in s.streets[:s.street_index + 1])
        if self.cur is not None and getattr(self.cur, 'fallback', False) \
                and not self.cur.complete():
            return
        exp += getattr(self, 'extra_board', 0)
        if s.runout_count and s.runout_count > 1 and \
                getattr(self, 'extra_board', 0):
            return          # (fallback cards repeated per run-out: not judged)
        got = [len(list(s.get_board_cards(j))) for j in s.board_indices]
        ctx.counters['board_sizes_checked'] += 1
        if any(g != exp for g in got) or (exp and not got):
            ctx.violate(f'{where}: boards hold {got} cards, the streets '
                        f'dealt so far prescribe {exp} each '
                        f'(board_cards {s.board_cards})')

    def on_decision(self, ctx, s, avail):
        if s.status and s.actor_index is not None:
            self._check_boards(ctx, s, f'betting on street {s.street_index}')
        if not s.status:
            self._finish(ctx, 'hand over')
            return
        dealing_phase = any(PHASE[a] == 'deal' for a in avail)
        if dealing_phase:
            if self.cur is not None and self.cur.complete():
                self._finish(ctx, 'repeat for another run-out')
            c = self._ensure(ctx, s)
            if s.actor_index is not None:
                ctx.violate(f'actor {s.actor_index} exposed while street '
                            f'{s.street_index} is still being dealt')
            if 'stand_pat_or_discard' in avail:
                self._probe_discards(ctx, s)

    def on_call_failed(self, ctx, s, name, args, exc):
        # an available operation died inside the dealing machinery: the
        # street was not dealt as its definition says
        site = hist.exc_site(exc)
        if any(k in site for k in ('dealing', 'deal_', 'burn', 'discard',
                                   '_consume_cards', '_produce_cards')):
            ctx.violate(f'{name}{tuple(args)} was available but raised '
                        f'{type(exc).__name__}: {exc} [{site}] while street '
                        f'{s.street_index} was being dealt')

    def _probe_discards(self, ctx, s):
        """A player discards only cards he holds (as many times as he holds
        them): the draw decision is probed with his own cards, a card twice,
        a card of another player and an undealt card."""
        i = s.stander_pat_or_discarder_index
        held = list(s.hole_cards[i])
        ctx.counters['discard_probes'] += 1
        if not s.can_stand_pat_or_discard(tuple(held)):
            ctx.violate(f'player {i} may not discard his whole hand {held}')
        if held and all(held):
            c = held[0]
            if held.count(c) == 1 and s.can_stand_pat_or_discard((c, c)):
                ctx.violate(f'player {i} holds {c} once but may discard it '
                            f'twice (hand {held})')
        foreign = [c for j in s.player_indices if j != i and s.statuses[j]
                   for c in s.hole_cards[j] if c and c not in held]
        foreign += [c for c in s.deck_cards if c not in held][:1]
        for c in foreign[:3]:
            if s.can_stand_pat_or_discard((c,)):
                ctx.violate(f'player {i} may discard {c}, which he does not '
                            f'hold (hand {held})')

    def on_op(self, ctx, s, op):
        kind = type(op).__name__
        if kind in BETTING:
            c = self.cur
            if c is not None and not c.complete():
                ctx.violate(f'{kind} before street {c.index} was completely '
                            f'dealt')
            return
        if kind not in DEALING:
            if kind in ('ChipsPushing', 'HandKilling') or not s.status:
                self._finish(ctx, kind)
            return
        if self.cur is not None and self.cur.complete():
            self._finish(ctx, 'repeat for another run-out')
        already = len(op.cards) if kind == 'HoleDealing' else (
            len(op.cards) if kind == 'BoardDealing' else 0)
        c = self._ensure(ctx, s, already)
        if c is None:
            ctx.violate(f'{kind} without a current street')
            return
        c.nops += 1
        client = ctx.last_client
        default = client is None or client[0] != opname(op) or not client[1]
        where = f'street {c.index} op #{ctx.nevents} {kind}'
        if kind == 'CardBurning':
            ctx.counters['burns_checked'] += 1
            if not c.burn_needed:
                ctx.violate(f'{where}: burn although the street prescribes '
                            f'none')
            if c.burned:
                ctx.violate(f'{where}: second burn on the street')
            if c.cards_started:
                ctx.violate(f'{where}: burn after cards of the street were '
                            f'dealt')
            if c.draw_pending:
                ctx.violate(f'{where}: burn before players {c.draw_pending} '
                            f'decided their draw')
            c.burned = True
        elif kind == 'StandingPatOrDiscarding':
            i = op.player_index
            if not c.street.draw_status:
                ctx.violate(f'{where}: draw on a non-draw street')
            if i not in c.draw_pending:
                ctx.violate(f'{where}: player {i} draws, pending '
                            f'{c.draw_pending}')
            else:
                if c.draw_pending[0] != i:
                    ctx.violate(f'{where}: player {i} draws before '
                                f'{c.draw_pending[0]}')
                c.draw_pending.remove(i)
            before = ctx.data.get('c10_hole', {}).get(i)
            if before is not None:
                cards, stats = before
                held = list(cards)
                facings = []
                for card in op.cards:
                    if card not in held:
                        ctx.violate(f'{where}: discarded {card!r} not held '
                                    f'{cards}')
                        break
                    j = held.index(card)
                    facings.append(stats[cards.index(card)]
                                   if cards.count(card) == 1 else None)
                    held[j] = None
                if None not in facings:
                    if len(set(stats)) > 1 and facings:
                        ctx.counters['mixed_facing_draws'] += 1
                    c.need_hole[i] = facings
                else:
                    c.need_hole[i] = [None] * len(op.cards)
            else:
                c.need_hole[i] = [None] * len(op.cards)
        elif kind == 'HoleDealing':
            i = op.player_index
            c.cards_started = True
            if c.burn_needed and not c.burned:
                ctx.violate(f'{where}: hole cards before the prescribed burn')
            if c.draw_pending:
                ctx.violate(f'{where}: cards dealt while {c.draw_pending} '
                            f'have not drawn')
            owed = c.need_hole.get(i)
            if owed is None:
                ctx.violate(f'{where}: player {i} is not in the hand '
                            f'(live {c.live}) but was dealt {op.cards}')
                return
            k = len(op.cards)
            if k > len(owed) or k == 0:
                ctx.violate(f'{where}: player {i} dealt {k} cards, owed '
                            f'{len(owed)}')
                return
            exp = owed[:k]
            if any(e is not None and e != g
                   for e, g in zip(exp, op.statuses)):
                ctx.violate(f'{where}: facings {op.statuses}, prescribed '
                            f'{exp}')
            if default and k == 1:
                ctx.counters['default_dealee_checks'] += 1
                if c.street.draw_status:
                    expi = min(j for j, v in c.need_hole.items() if v)
                else:
                    expi = max(c.need_hole, key=lambda j: (
                        len(c.need_hole[j]), -j))
                if expi != i:
                    ctx.violate(f'{where}: default dealing gave a card to '
                                f'player {i}, position order says {expi} '
                                f'(owed { {j: len(v) for j, v in c.need_hole.items()} })')
            elif not default:
                if len(client[1]) > 1:
                    ctx.counters['explicit_player_deals'] += 1
                    if client[1][1] is not None and client[1][1] != i:
                        ctx.violate(
                            f'{where}: the client dealt to player '
                            f'{client[1][1]} explicitly, the cards went to '
                            f'player {i}')
                if k > 1 or (client[1] and isinstance(client[1][0], int)):
                    ctx.counters['chunked_deals'] += 1
            del owed[:k]
        elif kind == 'BoardDealing':
            c.cards_started = True
            if c.burn_needed and not c.burned:
                ctx.violate(f'{where}: board cards before the prescribed '
                            f'burn')
            if c.draw_pending:
                ctx.violate(f'{where}: board dealt while draws are pending')
            k = len(op.cards)
            if k > c.need_board or k == 0:
                ctx.violate(f'{where}: {k} board cards, street still owes '
                            f'{c.need_board} (fallback {c.fallback})')
                return
            # one board is filled at a time
            for j, left in enumerate(c.board_left):
                if left:
                    if k > left:
                        ctx.violate(f'{where}: {k} cards in one operation '
                                    f'although board {j} only needs {left}')
                    c.board_left[j] -= min(k, left)
                    break
            c.need_board -= k
            if not default:
                ctx.counters['chunked_deals'] += 1
        # remember hole cards for the next discard
        ctx.data['c10_hole'] = {
            i: (list(s.hole_cards[i]), list(s.hole_card_statuses[i]))
            for i in s.player_indices}

    def on_created(self, ctx, s):
        ctx.data['c10_hole'] = {
            i: (list(s.hole_cards[i]), list(s.hole_card_statuses[i]))
            for i in s.player_indices}

    def on_end(self, ctx, s):
        if 'op_exc' in ctx.data:
            return
        if self.cur is not None and not s.status:
            self._finish(ctx, 'hand over')
        if self.done >= 2:
            ctx.tag('two-streets')
        # terminal consistency with the sum of prescriptions for survivors
        if not s.status and sum(s.statuses) >= 2 and not ctx.violations:
            for i in s.player_indices:
                if s.statuses[i] and s.hole_cards[i]:
                    if len(s.hole_cards[i]) != len(s.hole_card_statuses[i]):
                        ctx.violate('hole cards and facings out of step')


def probe_street_validation(res):
    P = Opening.POSITION
    bad = [
        (True, (False,), -1, False, P, 2, None),
        (True, (), 0, False, P, 2, None),
        (True, (False,), 0, True, P, 2, None),
        (True, (False,), 0, False, P, 0, None),
        (True, (False,), 0, False, P, -2, None),
        (True, (False,), 0, False, P, 2, -1),
    ]
    good = [
        (False, (False, True), 0, False, P, 2, None),
        (True, (), 3, False, P, 2, 4),
        (True, (), 0, True, P, 1, 0),
        (False, (False,), 2, False, P, 2, None),
    ]
    for args in bad:
        res.counters['street_validation_probes'] += 1
        try:
            Street(*args)
        except ValueError:
            continue
        except Exception as exc:   # noqa: BLE001
            res.violation(f'Street{args} raised {type(exc).__name__}',
                          {'street': repr(args)})
            continue
        res.violation(f'Street{args} accepted an invalid definition',
                      {'street': repr(args)})
    for args in good:
        res.counters['street_validation_probes'] += 1
        try:
            Street(*args)
        except Exception as exc:   # noqa: BLE001
            res.violation(f'Street{args} (valid) raised '
                          f'{type(exc).__name__}: {exc}',
                          {'street': repr(args)})


def make_monitors():
    return [driver.Observer(0.1), driver.Interleaver(), DealMonitor()]


def gen_kwargs(rng):
    k = rng.random()
    if k < 0.06:
        # nine-handed seven-card games: the deck runs out a street earlier
        return dict(
            games=gen.STUD_GAMES, customs=('studboard',), p_custom=0.4,
            chip_types=('int',), strict_p=1.0, min_n=9, max_n=9,
            auto_styles=('any', 'none', 'typical', 'all'),
            hostile_chips=False)
    if k < 0.12:
        # streets that mix kinds of dealing (draw + board, hole + board,
        # stud + board) with short stacks: the betting between two such
        # streets is often skipped and the engine chains the dealing itself
        return dict(
            customs=('drawboard', 'drawboard', 'boarddraw', 'holeboard',
                     'studboard', 'studdraw', 'random'), p_custom=1.0,
            chip_types=('int',), max_boards=2, strict_p=1.0,
            auto_styles=('any', 'all', 'single-off', 'typical'),
            hostile_chips=True)
    if k < 0.2:
        games, min_n = gen.STUD_GAMES, 7
    elif k < 0.4:
        games, min_n = gen.DRAW_GAMES, 2
    else:
        games, min_n = gen.ALL_GAMES, 2
    return dict(
        games=games, customs=CUSTOMS, p_custom=0.3, chip_types=('int',),
        max_boards=3, strict_p=1.0, min_n=min_n,
        auto_styles=('any', 'none', 'typical', 'all'),
        hostile_chips=rng.random() < 0.6,
    )


def pol_tweak(pol, cfg, rng):
    stud = cfg.get('game') in gen.STUD_GAMES or cfg.get('template') in (
        'stud5', 'studboard', 'openstud')
    if stud and cfg['n'] >= 7 and rng.random() < (
            0.7 if cfg['n'] == 9 else 0.35):
        # mixed information: one or two seats with unrecorded down cards and
        # unknown burns; the known cards can still exhaust the deck
        pol['deal_override'] = 'mixedunknown'
        pol['unknown_seats'] = rng.sample(range(cfg['n']),
                                          rng.choice([0, 0, 1, 1, 2]))
        cfg['autos'] = [a for a in cfg['autos']
                        if a not in ('HOLE_DEALING', 'CARD_BURNING',
                                     'HOLE_CARDS_SHOWING_OR_MUCKING')]
        cfg['mode'] = 'CASH_GAME'
    if rng.random() < 0.4:
        pol['fork_p'] = 0.03     # continue on a deepcopy mid-hand
    pol['policy'] = rng.choice(['passive', 'passive', 'uniform', 'foldy',
                                'allin', 'drawheavy'])
    if pol['deal'] == 'default' and rng.random() < 0.5:
        pol['deal'] = rng.choice(['chunks', 'anyorder', 'explicit'])
    if pol.get('deal_override'):
        pol['deal'] = pol['deal_override']
        pol['policy'] = 'passive'


def nontrivial(ctx):
    return 'two-streets' in ctx.tags


def classify(ctx, v):
    st = ctx.state
    if st is not None and 'boards hold' in v['what'] and \
            ctx.data.get('c10_fallback_streets', 0) >= 1 and \
            any(len(row) > st.board_count for row in st.board_cards):
        return 'stud_fallback_card_shares_a_slot'
    return None


def run_shard(seed, shard, of, tier, deadline):
    res = hist.run_history_shard(
        PROP, seed, shard, of, tier, deadline, cases=CASES,
        gen_kwargs=gen_kwargs, make_monitors=make_monitors,
        nontrivial=nontrivial, pol_tweak=pol_tweak, classify=classify)
    probe_street_validation(res)
    return res


def replay(payload):
    if 'street' in payload:
        from vflib.run import Shard
        res = Shard()
        probe_street_validation(res)
        return [{'what': v['what'], 'kf': None} for v in res.violations]
    return hist.replay_history(payload, make_monitors, PROP, classify)
