"""C04 -- hand comparison agrees with the rules (differential, exhaustive in
the thorough tier) against the independent evaluator vflib.ref.handrank."""
from __future__ import annotations

from itertools import combinations, combinations_with_replacement
import random
import time

from vflib import load  # noqa: F401
from vflib.run import Shard, shard_seed, sig
from vflib.ref import handrank as hr
import pokerkit
from pokerkit import Card, Deck
from pokerkit import hands as pk_hands

PROP = 'C04'
RULE = (
    'for each of the 11 hand classes: (1) every rank-multiset x suitedness '
    'class is evaluated by the engine and by the independent evaluator and '
    'the relation {(reference rank, entry.index)} must be a strictly '
    'monotone bijection (decides all pairs at once); (2) every k-card subset '
    'of the class\'s deck (5-card subsets of 52/36 cards, 1-4 card subsets '
    'for badugi, 1-card for Kuhn; thorough: ALL of them, quick: a seeded '
    '1-in-N stride + all small spaces) must be accepted exactly when the '
    'reference returns a rank, with the index of its class and the right '
    'label; (3) the six comparison operators and hash on adjacent, random '
    'and equal-rank pairs follow the reference strength incl. the low flag; '
    '(4) non-hands (wrong sizes 0-7, unknown or partly unknown cards, ranks '
    'outside the deck, paired / non-rainbow badugi, 9+ in eight-or-better) '
    'must be rejected. distinct_nontrivial = distinct (class, reference '
    'rank) pairs among accepted hands.')
ASSUMPTIONS = [
    'the reference evaluator encodes the rules as stated in the property '
    '(wheel is the lowest straight; short-deck A-6-7-8-9 lowest straight and '
    'flush above full house; low types exactly reverse the order)',
    'rejection may be any exception; the type is recorded (KeyError for '
    'unknown ranks is an observation, the statement says only "rejected")',
]
STRIDE = {'quick': 10, 'thorough': 1}
TIME = {'quick': 80, 'thorough': 560}
CASES = {'quick': 0, 'thorough': 0}
MIN_NONTRIVIAL = {'quick': 15000, 'thorough': 25000}
EXHAUSTIVE = {'quick': False, 'thorough': True}
REQUIRED = ('hands_enumerated', 'classes_tabled', 'operator_pairs',
            'rejections_checked', 'equal_rank_pairs', 'accepted', 'refused',
            'argument_forms_checked', 'container_mutations_checked')

DECKS = {
    'standard': Deck.STANDARD, 'shortdeck': Deck.SHORT_DECK_HOLDEM,
    'regular': Deck.REGULAR, 'eightorbetter': Deck.STANDARD,
    'badugi': Deck.REGULAR, 'stdbadugi': Deck.STANDARD,
    'kuhn': Deck.KUHN_POKER,
}
ORDERS = {'standard': hr.STD, 'shortdeck': hr.SD, 'regular': hr.REG,
          'eightorbetter': hr.STD, 'badugi': hr.REG, 'stdbadugi': hr.STD,
          'kuhn': hr.KUHN}
SUITS = 'cdhs'


def cards_of(text):
    return tuple(Card.parse(text))


def text_of(cards):
    return ''.join(map(repr, cards))


def engine_eval(cls, cards):
    """(index, label) or ('EXC', exception type name)."""
    try:
        h = cls(cards)
    except Exception as exc:   # noqa: BLE001
        return None, type(exc).__name__
    e = h.entry
    return h, (e.index, str(e.label.value))


def representatives(kind):
    order = ORDERS[kind]
    if kind in ('badugi', 'stdbadugi'):
        for k in (1, 2, 3, 4):
            for ranks in combinations(order, k):
                yield tuple(Card.parse(''.join(
                    r + SUITS[i] for i, r in enumerate(ranks))))
        return
    if kind == 'kuhn':
        for r in order:
            yield tuple(Card.parse(r + 's'))
        return
    for ranks in combinations_with_replacement(order, 5):
        if max(ranks.count(r) for r in ranks) > 4:
            continue
        seen = {}
        cs = []
        for r in ranks:
            j = seen.get(r, 0)
            seen[r] = j + 1
            cs.append(r + SUITS[j])
        if len(set(ranks)) == 5:
            # make sure the unsuited representative is really unsuited
            cs[-1] = cs[-1][0] + 'd'
            yield tuple(Card.parse(''.join(cs)))
            yield tuple(Card.parse(''.join(r + 's' for r in ranks)))
        else:
            yield tuple(Card.parse(''.join(cs)))


def build_table(res, clsname, cls, kind):
    """refkey -> index from one representative per class; checks the
    monotone bijection."""
    table = {}
    back = {}
    for cards in representatives(kind):
        key = hr.refkey(kind, cards)
        h, ev = engine_eval(cls, cards)
        if (key is None) != (h is None):
            res.violation(
                f'{clsname}({text_of(cards)}): engine '
                f'{"accepts" if h else "rejects (" + str(ev) + ")"}, '
                f'reference {"valid" if key else "invalid"}',
                {'cls': clsname, 'cards': text_of(cards), 'kind': 'enum'})
            continue
        if key is None:
            continue
        idx = ev[0]
        if key in table and table[key] != idx:
            res.violation(
                f'{clsname}: equal reference rank {key} has two indices '
                f'{table[key]} and {idx} ({text_of(cards)})',
                {'cls': clsname, 'cards': text_of(cards), 'kind': 'enum'})
        table.setdefault(key, idx)
        if idx in back and back[idx] != key:
            res.violation(
                f'{clsname}: index {idx} shared by different ranks '
                f'{back[idx]} and {key} ({text_of(cards)})',
                {'cls': clsname, 'cards': text_of(cards), 'kind': 'enum'})
        back.setdefault(idx, key)
    items = sorted(table.items(), key=lambda kv: kv[1])
    for (k0, i0), (k1, i1) in zip(items, items[1:]):
        if not k0 < k1:
            res.violation(
                f'{clsname}: order not preserved: index {i0} < {i1} but '
                f'reference rank {k0} !< {k1}',
                {'cls': clsname, 'kind': 'table', 'cards': ''})
            break
    if items and [i for _, i in items] != list(range(len(items))):
        res.violation(f'{clsname}: indices are not dense 0..{len(items)-1}',
                      {'cls': clsname, 'kind': 'table', 'cards': ''})
    res.counters['classes_tabled'] += len(table)
    return table


def check_hand(res, clsname, cls, kind, table, cards, keep):
    key = hr.refkey(kind, cards)
    h, ev = engine_eval(cls, cards)
    res.counters['hands_enumerated'] += 1
    if (key is None) != (h is None):
        res.violation(
            f'{clsname}({text_of(cards)}): engine '
            f'{"accepts" if h else "rejects (" + str(ev) + ")"}, reference '
            f'{"valid " + str(key) if key else "invalid"}',
            {'cls': clsname, 'cards': text_of(cards), 'kind': 'enum'})
        return
    if key is None:
        res.counters['refused'] += 1
        return
    res.counters['accepted'] += 1
    idx, label = ev
    if table.get(key) != idx:
        res.violation(
            f'{clsname}({text_of(cards)}): index {idx}, its class {key} '
            f'has index {table.get(key)}',
            {'cls': clsname, 'cards': text_of(cards), 'kind': 'enum'})
    if label != hr.label_of(kind, key):
        res.violation(
            f'{clsname}({text_of(cards)}): label {label!r}, reference '
            f'{hr.label_of(kind, key)!r}',
            {'cls': clsname, 'cards': text_of(cards), 'kind': 'enum'})
    res.sigs.add(sig(clsname, key))
    if keep is not None:
        keep.append((h, key))


def check_pair(res, clsname, low, a, ka, b, kb):
    sa = hr.strength('x', low, ()) if False else None
    # strength order from reference keys
    if low:
        lt, eq = ka > kb, ka == kb
    else:
        lt, eq = ka < kb, ka == kb
    gt = not lt and not eq
    got = (a < b, a <= b, a == b, a != b, a > b, a >= b)
    exp = (lt, lt or eq, eq, not eq, gt, gt or eq)
    res.counters['operator_pairs'] += 1
    if eq:
        res.counters['equal_rank_pairs'] += 1
    if got != exp or (eq and hash(a) != hash(b)):
        res.violation(
            f'{clsname}: {a!r} vs {b!r}: (<,<=,==,!=,>,>=) = {got}, '
            f'reference {exp}; hash equal: {hash(a) == hash(b)}',
            {'cls': clsname, 'cards': repr(a), 'cards2': repr(b),
             'kind': 'pair'})


def rejection_inputs(kind, rng):
    deck = list(DECKS[kind])
    out = []
    valid_sizes = {'badugi': (1, 2, 3, 4), 'stdbadugi': (1, 2, 3, 4),
                   'kuhn': (1,)}.get(kind, (5,))
    for k in range(0, 8):
        if k in valid_sizes or k > len(deck):
            continue
        for _ in range(3):
            out.append(('size', tuple(rng.sample(deck, k))))
    # unknown and partly unknown cards inside an otherwise plausible hand
    k = valid_sizes[-1]
    for unk in ('??', 'A?', '?s', '2?', '?c', 'K?'):
        if kind == 'kuhn' and unk[0] not in '?K':
            continue
        base = rng.sample(deck, k - 1) if k > 1 else []
        out.append(('unknown', tuple(base) + cards_of(unk)))
    if kind == 'shortdeck':
        for t in ('2c7d8h9sTc', '5s6s7s8s9s', '3h3dKsKdKc', 'Ac2c3c4c5c'):
            out.append(('rank-outside-deck', cards_of(t)))
    if kind == 'eightorbetter':
        for t in ('Ac2d3h4s9c', 'Ac2d3h4sTc', 'KcQdJhTs9c', '8c7d6h5s5c',
                  'AcAd2h3s4c', '2c3c4c5c9c'):
            out.append(('not-qualifying', cards_of(t)))
    if kind in ('badugi', 'stdbadugi'):
        for t in ('AcAd', 'Ac2c', 'Ac2d3h3s', 'Ac2d3h4h', 'KsKh', '2c3d4h5c',
                  'Ac2d3h4s5c'):
            out.append(('paired-or-not-rainbow', cards_of(t)))
    if kind == 'kuhn':
        for t in ('As', 'Ts', '2s'):
            out.append(('rank-outside-deck', cards_of(t)))
    return out


def run_shard(seed, shard, of, tier, deadline):
    res = Shard()
    rng = random.Random(shard_seed(seed, PROP, shard))
    stride = STRIDE[tier]
    offset = seed % max(1, stride)
    for clsname, (kind, low, rule) in hr.CLASSES.items():
        cls = getattr(pk_hands, clsname)
        table = build_table(res, clsname, cls, kind)
        deck = list(DECKS[kind])
        sizes = {'badugi': (1, 2, 3, 4), 'stdbadugi': (1, 2, 3, 4),
                 'kuhn': (1,)}.get(kind, (5,))
        keep = []
        counter = 0
        small = kind in ('kuhn',)
        for k in sizes:
            for cards in combinations(deck, k):
                counter += 1
                if small:
                    if shard != 0:
                        continue
                elif stride == 1 or k < 4:
                    if counter % of != shard:
                        continue
                else:
                    if (counter + offset) % (of * stride) != shard * stride:
                        continue
                kp = keep if (len(keep) < 1500 and rng.random() < 0.02) \
                    or (small and len(keep) < 3) else None
                check_hand(res, clsname, cls, kind, table, cards, kp)
                if res.counters['violations_raw'] > 200:
                    break
            if time.time() > deadline:
                res.truncated = True
                break
        # operator tier
        keep.sort(key=lambda hk: hk[1])
        for (a, ka), (b, kb) in zip(keep, keep[1:]):
            check_pair(res, clsname, low, a, ka, b, kb)
        npairs = 4000 if tier == 'quick' else 60000
        if len(keep) >= 2:
            for _ in range(npairs):
                (a, ka), (b, kb) = rng.choice(keep), rng.choice(keep)
                check_pair(res, clsname, low, a, ka, b, kb)
            # equal-rank classes: same ranks, other suits
            for a, ka in rng.sample(keep, min(len(keep), 400)):
                perm = dict(zip(SUITS, rng.sample(SUITS, 4)))
                try:
                    b = cls(''.join(c.rank.value + perm[c.suit.value]
                                    for c in a.cards))
                except ValueError:
                    continue
                check_pair(res, clsname, low, a, ka, b, ka)
        # argument-form tier: the same valid hand given as text, with tens
        # spelt "10", as a list, a one-shot iterator or a generator
        for a, ka in rng.sample(keep, min(len(keep), 250)):
            t = text_of(a.cards)
            forms = [('text', t), ('text-10', t.replace('T', '10')),
                     ('text-spaced', ' '.join(repr(c) for c in a.cards)),
                     ('list', list(a.cards)), ('iterator', iter(a.cards)),
                     ('generator', (c for c in a.cards)),
                     ('parse', Card.parse(t))]
            for kind_, form in forms:
                res.counters['argument_forms_checked'] += 1
                try:
                    b = cls(form)
                except Exception as exc:   # noqa: BLE001
                    res.violation(
                        f'{clsname}({kind_} of {t}) raised '
                        f'{type(exc).__name__}: {exc}; the tuple of cards '
                        f'is a valid hand',
                        {'cls': clsname, 'cards': t, 'form': kind_})
                    continue
                if not (b == a) or b.entry.index != a.entry.index:
                    res.violation(
                        f'{clsname}({kind_} of {t}) is a different hand '
                        f'({b!r}, index {b.entry.index}) than the tuple '
                        f'form (index {a.entry.index})',
                        {'cls': clsname, 'cards': t, 'form': kind_})
        # a hand is a value: built from a mutable container, it must not
        # follow what the caller does to that container afterwards (deal
        # buffers are refilled, cards popped)
        pool = rng.sample(keep, min(len(keep), 120))
        for (a, ka), (c, kc) in zip(pool, pool[1:] + pool[:1]):
            check_detached(res, clsname, cls, a, c)
        # rejection tier
        if shard == 0 or tier == 'thorough':
            for why, cards in rejection_inputs(kind, rng):
                res.counters['rejections_checked'] += 1
                h, ev = engine_eval(cls, cards)
                if h is not None:
                    res.violation(
                        f'{clsname}({text_of(cards)}) accepted (index '
                        f'{ev[0]}, {ev[1]}) although it is not a hand of '
                        f'that type: {why}',
                        {'cls': clsname, 'cards': text_of(cards),
                         'kind': 'reject', 'why': why})
                else:
                    res.counters[f'rejected_with_{ev}'] += 1
        if keep:
            a, ka = keep[len(keep) // 2]
            res.add_sample({'class': clsname, 'hand': repr(a),
                            'reference_rank': str(ka),
                            'entry_index': a.entry.index,
                            'label': str(a.entry.label.value)}, limit=11)
    res.evaluations = res.counters['hands_enumerated'] + \
        res.counters['operator_pairs'] + res.counters['rejections_checked']
    return res


def check_detached(res, clsname, cls, a, c):
    from collections import deque
    t = text_of(a.cards)
    for kind_, make in (('list', list), ('deque', deque)):
        buf = make(a.cards)
        try:
            b = cls(buf)
            before = (hash(b), b.entry.index, repr(b), tuple(b.cards))
            buf.clear()
            buf.extend(c.cards)      # the buffer now holds another hand
            buf.reverse()
            after = (hash(b), b.entry.index, repr(b), tuple(b.cards))
            same = b == a
        except Exception as exc:   # noqa: BLE001
            res.violation(
                f'{clsname}({kind_} of {t}), container refilled with '
                f'{text_of(c.cards)} afterwards: {type(exc).__name__}: {exc}',
                {'cls': clsname, 'cards': t, 'cards2': text_of(c.cards),
                 'kind': 'detached'})
            return
        res.counters['container_mutations_checked'] += 1
        if before != after or not same:
            res.violation(
                f'{clsname}({kind_} of {t}) changed when the caller refilled '
                f'the {kind_} it was built from with {text_of(c.cards)}: '
                f'{before[2]} (index {before[1]}) became {after[2]} (index '
                f'{after[1]}); a hand is documented as immutable',
                {'cls': clsname, 'cards': t, 'cards2': text_of(c.cards),
                 'kind': 'detached'})
            return


def replay(payload):
    clsname = payload['cls']
    kind, low, rule = hr.CLASSES[clsname]
    cls = getattr(pk_hands, clsname)
    res = Shard()
    table = build_table(res, clsname, cls, kind)
    if payload.get('kind') == 'detached':
        check_detached(res, clsname, cls, cls(payload['cards']),
                       cls(payload['cards2']))
    elif 'form' in payload:
        t = payload['cards']
        a = cls(cards_of(t))
        forms = {'text': t, 'text-10': t.replace('T', '10'),
                 'text-spaced': ' '.join(repr(c) for c in a.cards),
                 'list': list(a.cards), 'iterator': iter(a.cards),
                 'generator': (c for c in a.cards), 'parse': Card.parse(t)}
        try:
            b = cls(forms[payload['form']])
            if not (b == a) or b.entry.index != a.entry.index:
                res.violation(f'{clsname}({payload["form"]} of {t}) is a '
                              f'different hand', payload)
        except Exception as exc:   # noqa: BLE001
            res.violation(f'{clsname}({payload["form"]} of {t}) raised '
                          f'{type(exc).__name__}: {exc}', payload)
    elif payload['kind'] == 'enum':
        check_hand(res, clsname, cls, kind, table,
                   cards_of(payload['cards']), None)
    elif payload['kind'] == 'pair':
        a = cls(payload['cards'])
        b = cls(payload['cards2'])
        check_pair(res, clsname, low, a, hr.refkey(kind, a.cards), b,
                   hr.refkey(kind, b.cards))
    elif payload['kind'] == 'reject':
        h, ev = engine_eval(cls, cards_of(payload['cards']))
        if h is not None:
            res.violation(f'{clsname}({payload["cards"]}) accepted', payload)
    return [{'what': v['what'], 'kf': v.get('kf')} for v in res.violations]
