"""C11 -- each predefined variant plays the game its name and documentation
say (specification table + dynamic monitors during play)."""
from __future__ import annotations

from collections import Counter

from vflib import gen, driver, hist, load
from vflib.driver import Monitor, opname
from vflib.ref import handrank as hr
import pokerkit
from pokerkit import Automation, Card, Deck, HandHistory, Mode
from pokerkit import games as pk_games

PROP = 'C11'
RULE = (
    'static part (complete on every run): for each of the 12 predefined '
    'classes and several parameter choices (small/big or min bet, ante and '
    'blind forms, modes, board counts) the created state\'s deck, hand '
    'types, per-street burn / hole facings / board count / draw flag / '
    'opening / minimum bet / cap, betting structure and bring-in are '
    'compared with a specification table written from the game names and '
    'the documentation; the 11 hand-history variant codes must map to their '
    'classes and create_game must forward every parameter. Dynamic part: '
    'seeded random hands on every variant; monitors check that fixed-limit '
    'games offer min == max == current bet + street bet (or all-in for '
    'less) and never more than four bets/raises per round, no-limit offers '
    'up to the stack, pot-limit up to the independently computed pot-sized '
    'raise, every hole card has the facing the table says, and split games '
    'push the low half whenever an eligible low qualifies. Non-trivial = a '
    'hand with a raise or a showdown; distinct by (variant, players, mode, '
    'operation-kind sequence).')
ASSUMPTIONS = [
    'the specification table (SPEC below) states what the names mean: e.g. '
    'razz = ace-to-five low, high card brings in, lowest exposed hand opens; '
    'fixed-limit = small bet on the first two streets (stud: first two), '
    'big bet afterwards, cap four',
]
CASES = {'quick': 14000, 'thorough': 200000}
TIME = {'quick': 70, 'thorough': 540}
MIN_NONTRIVIAL = {'quick': 1500, 'thorough': 15000}
REQUIRED = ('static_attributes_compared', 'variant_codes_checked',
            'board_sizes_checked',
            'export_round_trips',
            'fixed_limit_offers', 'no_limit_offers', 'pot_limit_offers',
            'pot_limit_offers_raked_pot',
            'rounds_capped_at_four', 'hole_facings_checked',
            'split_low_pushed', 'split_no_low', 'variants_played',
            'interleave_points', 'round_openers_compared')

D, U = False, True
P = 'POSITION'


def holdem(n):
    return [(False, (D,) * n, 0, False, P, 's'), (True, (), 3, False, P, 's'),
            (True, (), 1, False, P, 'b'), (True, (), 1, False, P, 'b')]


def stud(first, later):
    return [(False, (D, D, U), 0, False, first, 's'),
            (True, (U,), 0, False, later, 's'),
            (True, (U,), 0, False, later, 'b'),
            (True, (U,), 0, False, later, 'b'),
            (True, (D,), 0, False, later, 'b')]


def draw(n, draws):
    out = [(False, (D,) * n, 0, False, P, 's')]
    for k in range(draws):
        out.append((True, (), 0, True, P,
                    's' if (draws == 3 and k == 0) else
                    ('b' if draws == 3 else 's')))
    return out


SPEC = {
    'FixedLimitTexasHoldem': dict(
        code='FT', deck='STANDARD', hands=('StandardHighHand',),
        streets=holdem(2), structure='FIXED_LIMIT', cap=4, bets=2,
        stud=False),
    'NoLimitTexasHoldem': dict(
        code='NT', deck='STANDARD', hands=('StandardHighHand',),
        streets=holdem(2), structure='NO_LIMIT', cap=None, bets=1,
        stud=False),
    'NoLimitRoyalHoldem': dict(
        code=None, deck='ROYAL_POKER', hands=('StandardHighHand',),
        streets=holdem(2), structure='NO_LIMIT', cap=None, bets=1,
        stud=False),
    'NoLimitShortDeckHoldem': dict(
        code='NS', deck='SHORT_DECK_HOLDEM', hands=('ShortDeckHoldemHand',),
        streets=holdem(2), structure='NO_LIMIT', cap=None, bets=1,
        stud=False),
    'PotLimitOmahaHoldem': dict(
        code='PO', deck='STANDARD', hands=('OmahaHoldemHand',),
        streets=holdem(4), structure='POT_LIMIT', cap=None, bets=1,
        stud=False),
    'FixedLimitOmahaHoldemHighLowSplitEightOrBetter': dict(
        code='FO/8', deck='STANDARD',
        hands=('OmahaHoldemHand', 'OmahaEightOrBetterLowHand'),
        streets=holdem(4), structure='FIXED_LIMIT', cap=4, bets=2,
        stud=False),
    'FixedLimitSevenCardStud': dict(
        code='F7S', deck='STANDARD', hands=('StandardHighHand',),
        streets=stud('LOW_CARD', 'HIGH_HAND'), structure='FIXED_LIMIT',
        cap=4, bets=2, stud=True),
    'FixedLimitSevenCardStudHighLowSplitEightOrBetter': dict(
        code='F7S/8', deck='STANDARD',
        hands=('StandardHighHand', 'EightOrBetterLowHand'),
        streets=stud('LOW_CARD', 'HIGH_HAND'), structure='FIXED_LIMIT',
        cap=4, bets=2, stud=True),
    'FixedLimitRazz': dict(
        code='FR', deck='REGULAR', hands=('RegularLowHand',),
        streets=stud('HIGH_CARD', 'LOW_HAND'), structure='FIXED_LIMIT',
        cap=4, bets=2, stud=True),
    'NoLimitDeuceToSevenLowballSingleDraw': dict(
        code='N2L1D', deck='STANDARD', hands=('StandardLowHand',),
        streets=draw(5, 1), structure='NO_LIMIT', cap=None, bets=1,
        stud=False),
    'FixedLimitDeuceToSevenLowballTripleDraw': dict(
        code='F2L3D', deck='STANDARD', hands=('StandardLowHand',),
        streets=draw(5, 3), structure='FIXED_LIMIT', cap=4, bets=2,
        stud=False),
    'FixedLimitBadugi': dict(
        code='FB', deck='REGULAR', hands=('BadugiHand',),
        streets=draw(4, 3), structure='FIXED_LIMIT', cap=4, bets=2,
        stud=False),
}
DECK_CARDS = {
    'STANDARD': 52, 'REGULAR': 52, 'SHORT_DECK_HOLDEM': 36,
    'ROYAL_POKER': 20,
}
DECK_RANKS = {
    'STANDARD': 'A23456789TJQK', 'REGULAR': 'A23456789TJQK',
    'SHORT_DECK_HOLDEM': '6789TJQKA', 'ROYAL_POKER': 'TJQKA',
}


def check_static(res):
    from vflib.run import sig
    autos = (Automation.ANTE_POSTING,)
    for name, sp in SPEC.items():
        cls = getattr(pk_games, name)
        for small, big, mode, boards, trim in (
                (2, 4, Mode.TOURNAMENT, 1, True),
                (5, 10, Mode.CASH_GAME, 2, False),
                (3, 7, Mode.TOURNAMENT, 1, False)):
            n = 3
            stacks = (200, 300, 400)
            if sp['stud']:
                args = [autos, trim, 1, 1, small, big]
            elif sp['bets'] == 2:
                args = [autos, trim, 1, (1, 2), small, big]
            else:
                args = [autos, trim, 1, (1, 2), small]
            payload = {'kind': 'static', 'game': name}
            try:
                game = cls(*args, mode=mode, starting_board_count=boards)
                s = game(stacks, n)
                s2 = cls.create_state(*args, stacks, n, mode=mode,
                                      starting_board_count=boards)
            except Exception as exc:   # noqa: BLE001
                res.violation(f'{name}{tuple(args)} could not be created: '
                              f'{type(exc).__name__}: {exc}', payload)
                continue

            def cmp(what, got, exp):
                res.counters['static_attributes_compared'] += 1
                if got != exp:
                    res.violation(f'{name}: {what} is {got!r}, the name/'
                                  f'documentation says {exp!r}', payload)
            for st in (s, s2):
                cmp('deck', st.deck.name, sp['deck'])
                cmp('deck size', len(st.deck), DECK_CARDS[sp['deck']])
                cmp('deck cards', sorted(map(repr, st.deck)), sorted(
                    r + su for r in DECK_RANKS[sp['deck']] for su in 'cdhs'))
                cmp('cards in the shuffled deck + dealt',
                    Counter(map(repr, st.deck)),
                    Counter(map(repr, list(st.deck_cards) + [
                        c for h in st.hole_cards for c in h])))
                cmp('hand types', tuple(h.__name__ for h in st.hand_types),
                    sp['hands'])
                cmp('betting structure', st.betting_structure.name,
                    sp['structure'])
                cmp('number of streets', len(st.streets),
                    len(sp['streets']))
                cmp('bring-in', st.bring_in, 1 if sp['stud'] else 0)
                cmp('blinds', any(st.blinds_or_straddles), not sp['stud'])
                cmp('mode', st.mode, mode)
                cmp('starting boards', st.starting_board_count, boards)
                cmp('ante trimming', st.ante_trimming_status, trim)
                cmp('antes', st.antes, (1, 1, 1))
                for k, (street, exp) in enumerate(
                        zip(st.streets, sp['streets'])):
                    burn, holes, board, drw, opening, bet = exp
                    amount = small if (bet == 's' or sp['bets'] == 1) \
                        else big
                    cmp(f'street {k} burn', street.card_burning_status, burn)
                    cmp(f'street {k} hole cards/facings',
                        street.hole_dealing_statuses, holes)
                    cmp(f'street {k} board cards',
                        street.board_dealing_count, board)
                    cmp(f'street {k} draw', street.draw_status, drw)
                    cmp(f'street {k} opening', street.opening.name, opening)
                    cmp(f'street {k} minimum bet',
                        street.min_completion_betting_or_raising_amount,
                        amount)
                    cmp(f'street {k} cap',
                        street.max_completion_betting_or_raising_count,
                        sp['cap'])
            res.sigs.add(sig('static', name, small, big, str(mode), boards))
        # game -> hand history -> game: a history made from a state of this
        # class must re-create THIS game (same class, same deck), or the
        # export must be refused (classes without a variant code)
        if name in gen.BUTTON_GAMES_MINBET:
            ga = [True, 0, (1, 2), 2]
        elif name in gen.BUTTON_GAMES_TWOBETS:
            ga = [True, 0, (1, 2), 2, 4]
        else:
            ga = [True, 1, 1, 2, 4]
        res.counters['export_round_trips'] += 1
        try:
            g0 = cls(tuple(Automation), *ga)
            st0 = g0((50, 50, 50), 3)
            hh0 = HandHistory.from_game_state(g0, st0)
        except (KeyError, ValueError):
            hh0 = None
        except Exception as exc:   # noqa: BLE001
            hh0 = None
            res.violation(f'{name}: from_game_state raised '
                          f'{type(exc).__name__}: {exc}',
                          {'kind': 'static', 'game': name})
        if hh0 is not None:
            try:
                g1 = hh0.create_game()
                st1 = hh0.create_state()
                if type(g1) is not cls or st1.deck != st0.deck or \
                        st1.hand_types != st0.hand_types:
                    res.violation(
                        f'{name}: a history exported from this game is '
                        f'written as variant {hh0.variant!r} and re-creates '
                        f'{type(g1).__name__} with a {len(st1.deck)}-card '
                        f'deck (original: {len(st0.deck)} cards)',
                        {'kind': 'static', 'game': name})
            except Exception as exc:   # noqa: BLE001
                res.violation(f'{name}: exported history cannot re-create '
                              f'the game: {type(exc).__name__}: {exc}',
                              {'kind': 'static', 'game': name})
        elif sp['code'] is not None:
            res.violation(f'{name} has variant code {sp["code"]!r} but '
                          f'from_game_state refuses it',
                          {'kind': 'static', 'game': name})
        # variant code <-> class, create_game forwarding
        code = sp['code']
        if code is None:
            if cls in HandHistory.game_types.values():
                pass
            continue
        res.counters['variant_codes_checked'] += 1
        payload = {'kind': 'static', 'game': name}
        if HandHistory.game_types.get(code) is not cls:
            res.violation(f'variant code {code!r} maps to '
                          f'{HandHistory.game_types.get(code)}, expected '
                          f'{name}', payload)
            continue
        if HandHistory.variants.get(cls) != code:
            res.violation(f'{name} is written as '
                          f'{HandHistory.variants.get(cls)!r}, expected '
                          f'{code!r}', payload)
        kw = dict(variant=code, antes=[1, 1, 1], starting_stacks=[50, 60, 70],
                  actions=[], ante_trimming_status=True)
        if sp['stud']:
            kw.update(bring_in=1, small_bet=4, big_bet=8)
        elif sp['bets'] == 2:
            kw.update(blinds_or_straddles=[1, 2, 0], small_bet=4, big_bet=8)
        else:
            kw.update(blinds_or_straddles=[1, 2, 0], min_bet=4)
        try:
            hh = HandHistory(**kw)
            g = hh.create_game()
            st = hh.create_state()
        except Exception as exc:   # noqa: BLE001
            res.violation(f'HandHistory(variant={code!r}).create_game '
                          f'raised {type(exc).__name__}: {exc}', payload)
            continue
        if type(g) is not cls:
            res.violation(f'create_game for {code!r} built '
                          f'{type(g).__name__}', payload)
        exp_bets = [4 if (b == 's' or sp['bets'] == 1) else 8
                    for *_, b in sp['streets']]
        got_bets = [x.min_completion_betting_or_raising_amount
                    for x in st.streets]
        if got_bets != exp_bets or st.ante_trimming_status is not True \
                or tuple(st.starting_stacks) != (50, 60, 70) \
                or st.antes != (1, 1, 1) \
                or st.bring_in != (1 if sp['stud'] else 0) \
                or st.betting_structure.name != sp['structure']:
            res.violation(
                f'create_game/create_state for {code!r} does not forward '
                f'the history fields: bets {got_bets} (expected '
                f'{exp_bets}), trimming {st.ante_trimming_status}, stacks '
                f'{st.starting_stacks}, antes {st.antes}, bring-in '
                f'{st.bring_in}, structure {st.betting_structure.name}',
                payload)
    extra = set(HandHistory.game_types) - {
        sp['code'] for sp in SPEC.values()}
    if extra:
        res.violation(f'unknown variant codes {extra}', {'kind': 'static'})


BETTING = ('Folding', 'CheckingOrCalling', 'BringInPosting',
           'CompletionBettingOrRaisingTo')


class VariantMonitor(Monitor):

    def on_begin(self, ctx):
        self.round_raises = 0
        self.sp = SPEC[ctx.cfg['game']]
        self.live_at_push = None
        self.hole_at_push = None

    def on_created(self, ctx, s):
        ctx.counters['variants_played'] += 1

    def on_decision(self, ctx, s, avail):
        if s.actor_index is None:
            return
        # button games: who opens each round is part of what the variant
        # documents (left of the biggest blind or straddle before the flop
        # -- posts of returning players do not move it --, left of the
        # button afterwards); compared with the opener model of C13
        seen = ctx.data.setdefault('c11_rounds', set())
        if s.street_index not in seen:
            seen.add(s.street_index)
            if 'POSITION' in str(s.street.opening).upper():
                from vflib.ref import opener as _opener
                exp_first = _opener.first_actor(s)
                ctx.counters['round_openers_compared'] += 1
                if exp_first is not None and exp_first != s.actor_index:
                    ctx.violate(
                        f'{ctx.cfg["game"]}: the round on street '
                        f'{s.street_index} is opened by player '
                        f'{s.actor_index}, the opener model says '
                        f'{exp_first} (bets {s.bets}, stacks {s.stacks}, '
                        f'blinds {s.blinds_or_straddles})')
        # board cards per street as the table says (read from the state:
        # each board holds what the streets dealt so far prescribe)
        k = s.street_index
        exp_board = sum(row[2] for row in self.sp['streets'][:k + 1])
        got_board = [len(list(s.get_board_cards(j))) for j in s.board_indices]
        fallback = bool(self.sp['stud']) and any(got_board)
        if not fallback:
            ctx.counters['board_sizes_checked'] += 1
            if any(g != exp_board for g in got_board):
                ctx.violate(f'{ctx.cfg["game"]}: betting on street {k} with '
                            f'boards of {got_board} cards, the variant '
                            f'prescribes {exp_board} by then '
                            f'(board_cards {s.board_cards})')
        lo = s.min_completion_betting_or_raising_to_amount
        hi = s.max_completion_betting_or_raising_to_amount
        if lo is None:
            return
        i = s.actor_index
        total = s.stacks[i] + s.bets[i]
        st = s.street
        structure = self.sp['structure']
        if structure == 'FIXED_LIMIT':
            ctx.counters['fixed_limit_offers'] += 1
            k = s.street_index
            bet = st.min_completion_betting_or_raising_amount
            spec_bet = self.sp['streets'][k][5]
            base = max(s.bets)
            if s.bring_in and k == 0 and self.round_raises == 0:
                target = bet              # completing the bring-in
            else:
                target = base + bet
            others = max(s.stacks[j] + s.bets[j]
                         for j in s.player_indices
                         if j != i and s.statuses[j])
            exp = min(target, s.bets[i] + min(
                s.stacks[i], max(0, others - s.bets[i])))
            if lo != hi:
                ctx.violate(f'{ctx.cfg["game"]}: fixed-limit offers '
                            f'[{lo}, {hi}] (street {k}, bets {s.bets})')
            elif lo != exp:
                ctx.violate(f'{ctx.cfg["game"]}: fixed-limit raise-to {lo}, '
                            f'expected current bet {base} + {spec_bet} bet '
                            f'{bet} = {target} (or all-in {total}); bets '
                            f'{s.bets}')
        elif structure == 'NO_LIMIT':
            ctx.counters['no_limit_offers'] += 1
            if hi != total:
                ctx.violate(f'{ctx.cfg["game"]}: no-limit maximum {hi} != '
                            f'stack + bet {total}')
        else:
            ctx.counters['pot_limit_offers'] += 1
            if ctx.cfg.get('inf_stack'):
                # (inf - inf is not a number: count the chips from the log)
                from vflib.ref import payout as _p
                collected = sum(_p.contributions_from_log(s)[0]) \
                    - sum(s.bets)
                ctx.counters['offers_with_an_infinite_stack'] += 1
            else:
                collected = sum(s.starting_stacks) - sum(s.stacks) \
                    - sum(s.bets)
            if ctx.cfg['rake'] and collected:
                ctx.counters['pot_limit_offers_raked_pot'] += 1
            pot = collected + sum(s.bets)
            exp = min(total, max(lo, 2 * max(s.bets) - s.bets[i] + pot))
            if hi != exp:
                ctx.violate(f'{ctx.cfg["game"]}: pot-limit maximum {hi} != '
                            f'pot-sized raise {exp} (bets {s.bets}, pot '
                            f'{pot})')

    def on_op(self, ctx, s, op):
        k = type(op).__name__
        if k == 'CompletionBettingOrRaisingTo':
            self.round_raises += 1
            ctx.tag('raise')
            cap = self.sp['cap']
            if cap is not None:
                if self.round_raises == cap:
                    ctx.counters['rounds_capped_at_four'] += 1
                if self.round_raises > cap:
                    ctx.violate(f'{ctx.cfg["game"]}: {self.round_raises} '
                                f'bets/raises in one round (cap {cap})')
        elif k not in BETTING:
            self.round_raises = 0
        if k == 'HoleDealing' and s.street_index is not None:
            exp = self.sp['streets'][s.street_index]
            ctx.counters['hole_facings_checked'] += 1
            if exp[3]:
                if any(op.statuses):
                    ctx.violate(f'{ctx.cfg["game"]}: a redrawn card is '
                                f'face up')
            else:
                have = len(s.hole_cards[op.player_index])
                before = sum(len(x[1]) for x in
                             self.sp['streets'][:s.street_index])
                if s.board_cards and not exp[1]:
                    pass
                else:
                    idx0 = have - len(op.cards) - before
                    want = exp[1][idx0:idx0 + len(op.cards)]
                    if tuple(op.statuses) != tuple(want):
                        ctx.violate(
                            f'{ctx.cfg["game"]}: street {s.street_index} '
                            f'hole card facings {op.statuses}, the game '
                            f'prescribes {want}')
        if k == 'ChipsPushing' and self.live_at_push is None:
            self.live_at_push = list(s.statuses)
            self.hole_at_push = [list(h) for h in s.hole_cards]

    def on_end(self, ctx, s):
        if s.status or 'op_exc' in ctx.data:
            return
        if len(self.sp['hands']) == 2 and self.live_at_push and \
                sum(self.live_at_push) > 1:
            ctx.tag('showdown')
            low = self.sp['hands'][1]
            pushes = [o for o in s.operations
                      if type(o).__name__ == 'ChipsPushing']
            any_low = False
            from vflib.ref import payout
            contrib, antes = payout.contributions_from_log(s)
            pots = payout.ref_pots(s, contrib, antes, self.live_at_push)
            for b in range(s.board_count):
                board = tuple(s.get_board_cards(b))
                q = [i for i in s.player_indices if self.live_at_push[i]
                     and hr.best_strength(low, self.hole_at_push[i], board)
                     is not None]
                for p, (amt, elig) in enumerate(pots):
                    here = [o for o in pushes if o.board_index == b
                            and o.pot_index == p]
                    share = sum(o.total_amount for o in here)
                    lows = [o for o in here if o.hand_type_index == 1]
                    if set(q) & set(elig):
                        any_low = True
                        if not lows and share >= 2:
                            ctx.violate(
                                f'{ctx.cfg["game"]}: players '
                                f'{sorted(set(q) & set(elig))} hold a '
                                f'qualifying low on board {b} but no low '
                                f'half of pot {p} ({share} chips) was '
                                f'pushed')
                    elif lows:
                        ctx.violate(
                            f'{ctx.cfg["game"]}: a low half of pot {p} was '
                            f'pushed on board {b} although no eligible '
                            f'player qualifies')
            ctx.counters['split_low_pushed' if any_low
                         else 'split_no_low'] += 1
        elif self.live_at_push and sum(self.live_at_push) > 1:
            ctx.tag('showdown')


def make_monitors():
    return [driver.Interleaver(), VariantMonitor()]


def gen_kwargs(rng):
    return dict(
        games=gen.ALL_GAMES + gen.HILO_GAMES, customs=(), p_custom=0,
        chip_types=('int',), max_boards=2, rake_ok=True, strict_p=1.0,
        auto_styles=('typical', 'all', 'any'),
        hostile_chips=rng.random() < 0.5, odd_bets_p=0.25,
    )


def cfg_filter(cfg, rng):
    if rng.random() < 0.06:
        # the documented "stack unknown" value: one seat with math.inf
        import math
        st = list(cfg['stacks']) if isinstance(
            cfg['stacks'], (list, tuple)) else [cfg['stacks']] * cfg['n']
        st[rng.randrange(cfg['n'])] = math.inf
        cfg['stacks'] = st
        cfg['inf_stack'] = True
    return cfg


def pol_tweak(pol, cfg, rng):
    pol['policy'] = rng.choice(['aggressive', 'aggressive', 'passive',
                                'uniform', 'allin'])


def nontrivial(ctx):
    return bool(ctx.tags & {'raise', 'showdown'})


def run_shard(seed, shard, of, tier, deadline):
    res = hist.run_history_shard(
        PROP, seed, shard, of, tier, deadline, cases=CASES,
        gen_kwargs=gen_kwargs, make_monitors=make_monitors,
        nontrivial=nontrivial, pol_tweak=pol_tweak, cfg_filter=cfg_filter)
    if shard == 0 or tier == 'thorough':
        check_static(res)
    return res


def replay(payload):
    if payload.get('kind') == 'static':
        from vflib.run import Shard
        res = Shard()
        check_static(res)
        return [{'what': v['what'], 'kf': None} for v in res.violations]
    return hist.replay_history(payload, make_monitors, PROP)
