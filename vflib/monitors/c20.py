"""C20 -- site-log importers: round trip through synthetic site logs."""
from __future__ import annotations

from decimal import Decimal
import random
import time
import warnings

from vflib import load, gen, driver, hist
from vflib.run import Shard, shard_seed, sig
from vflib.ref import sites
import pokerkit
from pokerkit import HandHistory

PROP = 'C20'
RULE = (
    'seeded random no-limit hold\'em hands played by the engine (2-9 seats, '
    'any button seat, sparse seat numbers, unequal stacks in ints or dollar-'
    'and-cent decimals, folds / calls / bets / raises / re-raises / all-ins, '
    'showdown or not, no rake) are rendered by OUR renderers '
    '(vflib/ref/sites.py) into the text of each of the six sites with that '
    'site\'s amount convention, imported with the corresponding '
    'HandHistory.from_* method and replayed. Checked per format: exactly one '
    'history; players in position order derived from the button seat '
    '(heads-up reversed as documented); blinds, starting stacks; the action '
    'list equals the original hand\'s betting / board / show actions with '
    'every raise in "raise to" form; known hole cards (hero / shown) agree; '
    'the replay ends with the stacks of the original hand (= what the log '
    'says each player collected); several hands in one text are all found. '
    'Corrupted logs (absurd raise, truncation inside the betting) must give '
    'a warning / error or no history, never a history replaying to other '
    'stacks. Non-trivial = a hand with >= 1 raise or a showdown; distinct by '
    '(site, players, heads-up?, action-kind sequence).')
ASSUMPTIONS = [
    'no corpus is available offline: the renderers encode the site formats '
    'as far as known and otherwise the grammar and amount conventions the '
    'importer documents in its patterns (see DESIGN C20); the check detects '
    'regressions and internal inconsistencies, not infidelity to a site',
    'the UserWarning about the unexpected field time_zone_abbreviation is '
    'emitted for every dated hand and is treated as an observation',
    'the winnings field is observed but not judged',
]
CASES = {'quick': 1700, 'thorough': 26000}
TIME = {'quick': 75, 'thorough': 560}
MIN_NONTRIVIAL = {'quick': 800, 'thorough': 6000}
REQUIRED = ('imports_compared', 'headsup_imports', 'showdown_imports',
            'reraise_hands', 'allin_hands', 'decimal_hands',
            'corruptions_checked', 'multi_hand_texts',
            'site:pokerstars', 'site:full_tilt', 'site:partypoker',
            'site:absolute', 'site:ongame', 'site:ipoker')

NAMES = ['alice', 'bob', 'carol', 'dave', 'eve', 'frank', 'gina', 'hugo',
         'ivy', 'Hero_77', 'x_y', 'Phil H']


def gen_hand(rng):
    n = rng.choice([2, 2, 3, 3, 4, 5, 6, 9])
    dec = rng.random() < 0.35
    # decimal hands are played in integer cents and rendered in dollars
    bb = rng.choice([10, 50, 100, 200] if dec else
                    [2, 10, 100, 2000, 2000, 200000])
    # (bb 200000: late tournament levels, stacks of tens of millions)
    sb = bb // 2
    stacks = [rng.randint(2, 150) * bb // 2 + rng.choice([0, 0, 1, 3])
              for _ in range(n)]
    # (exactly 10,000,000 is iPoker's documented placeholder for an unknown
    # stack and is imported as "infinite": not a stack a log can state)
    stacks = [x + 7 if x == 10 ** 7 else x for x in stacks]
    cfg = {
        'scale': Decimal('0.01') if dec else 1,
        'chip_type': 'int', 'kind': 'game',
        'game': 'NoLimitTexasHoldem', 'gargs': [True, 0, (sb, bb), bb],
        'autos': list(gen.ALL_AUTOS), 'mode': 'TOURNAMENT', 'boards': 1,
        'stacks': stacks, 'n': n, 'rake': None, 'divmod': None,
        'seed': rng.getrandbits(48), 'strict': True, 'unit': 1, 'bb': bb,
    }
    pol = driver.gen_policy(rng)
    pol['policy'] = rng.choice(['uniform', 'aggressive', 'aggressive',
                                'passive', 'allin', 'foldy'])
    pol['deal'] = 'default'
    pol['partial_show'] = False
    pol['muck'] = 'never'
    return cfg, pol


def seat_assignment(rng, n):
    nums = sorted(rng.sample(range(1, 10), n)) if n <= 9 else list(
        range(1, n + 1))
    b = rng.randrange(n)
    seats = [0] * n
    for i in range(n):
        if n > 2:
            t = (b + 1 + i) % n
        else:
            t = (b + 1) % n if i == 0 else b
        seats[i] = nums[t]
    return seats


def expected_actions(state):
    """PHH action lines implied by the original hand (betting, board,
    shows)."""
    out = []
    for op in state.operations:
        k = type(op).__name__
        p = getattr(op, 'player_index', None)
        if k == 'Folding':
            out.append(('f', p))
        elif k == 'CheckingOrCalling':
            out.append(('cc', p))
        elif k == 'CompletionBettingOrRaisingTo':
            out.append(('cbr', p, op.amount))
        elif k == 'BoardDealing':
            out.append(('db', tuple(map(repr, op.cards))))
        elif k == 'HoleCardsShowingOrMucking' and op.hole_cards and all(
                op.hole_cards):
            out.append(('sm', p, tuple(map(repr, op.hole_cards))))
    return out


def imported_actions(hh):
    out = []
    for a in hh.actions:
        w = a.split()
        if w[:2] == ['d', 'db']:
            cards = tuple(w[2][i:i + 2] for i in range(0, len(w[2]), 2))
            out.append(('db', cards))
        elif w[:2] == ['d', 'dh']:
            continue
        elif w[1] in ('f', 'cc'):
            out.append((w[1], int(w[0][1:]) - 1))
        elif w[1] == 'cbr':
            out.append(('cbr', int(w[0][1:]) - 1, Decimal(w[2])))
        elif w[1] == 'sm' and len(w) > 2 and '?' not in w[2]:
            cards = tuple(w[2][i:i + 2] for i in range(0, len(w[2]), 2))
            out.append(('sm', int(w[0][1:]) - 1, cards))
    return out


def norm_actions(acts, sc=1):
    out = []
    for a in acts:
        if a[0] == 'cbr':
            out.append(('cbr', a[1], Decimal(str(a[2])) * sc))
        else:
            out.append(a)
    return out


def run_import(meth, text, strict=False):
    """returns (histories, warnings, exception)"""
    with warnings.catch_warnings(record=True) as w:
        warnings.simplefilter('always')
        try:
            hhs = list(getattr(HandHistory, meth)(text))
            exc = None
        except Exception as e:   # noqa: BLE001
            hhs, exc = [], e
    msgs = [str(x.message) for x in w
            if 'time_zone_abbreviation' not in str(x.message)]
    return hhs, msgs, exc


def replay_stacks(hh):
    with warnings.catch_warnings():
        warnings.simplefilter('ignore')
        states = list(hh)
    return states[-1]


def check_hand(res, rng, carry):
    cfg, pol = gen_hand(rng)
    ctx = driver.play_hand(cfg, pol, [], PROP)
    if ctx.state is None or 'ctor_exc' in ctx.data or 'op_exc' in ctx.data \
            or ctx.state.status:
        res.counters['aborted'] += 1
        return
    s = ctx.state
    n = cfg['n']
    names = rng.sample(NAMES, n)
    seats = seat_assignment(rng, n)
    hand_id = rng.randint(10 ** 6, 10 ** 9)
    sc = cfg['scale']
    r = sites.hand_record(s, names, seats, hand_id, sc)
    if n >= 3 and rng.random() < 0.15:
        # seat lines listed in join order rather than by seat number
        # (PartyPoker exports, iPoker's attribute-keyed player elements)
        perm = list(range(n))
        rng.shuffle(perm)
        r['seat_line_order'] = perm
        res.counters['hands_with_permuted_seat_lines'] += 1
    exp = norm_actions(expected_actions(s), sc)
    nraise = sum(1 for a in exp if a[0] == 'cbr')
    showdown = any(a[0] == 'sm' for a in exp)
    payload_base = {'cfg': hist.enc_cfg(cfg), 'script': ctx.script,
                    'names': names, 'seats': seats, 'hand_id': hand_id}
    what = (f'{n} players, stacks {cfg["stacks"]}, blinds '
            f'{cfg["gargs"][2]}, seats {seats}')
    res.evaluations += 1
    for site, (render, meth) in sites.RENDERERS.items():
        kwargs = {}
        if site == 'pokerstars' and rng.random() < 0.7:
            kwargs['hero'] = rng.randrange(n)
        if site == 'full_tilt':
            kwargs['sep'] = rng.random() < 0.7
        if site == 'ipoker':
            kwargs['use_type6'] = rng.random() < 0.3
        text = render(r, **kwargs)
        payload = dict(payload_base, site=site, kwargs=kwargs)
        hhs, msgs, exc = run_import(meth, text)
        res.counters[f'site:{site}'] += 1
        if exc is not None or len(hhs) != 1:
            res.violation(
                f'{site}: the importer yielded {len(hhs)} histories '
                f'(exception {exc!r}, warnings {msgs[:2]}) for a well-formed '
                f'log || {what} || {text[:1500]}', payload)
            continue
        hh = hhs[0]
        res.counters['imports_compared'] += 1
        if n == 2:
            res.counters['headsup_imports'] += 1
        problems = []
        if list(hh.players or []) != names:
            problems.append(f'players {hh.players} != position order '
                            f'{names}')
        if [Decimal(str(x)) for x in hh.starting_stacks] != [
                Decimal(str(x)) * sc for x in s.starting_stacks]:
            problems.append(f'starting stacks {hh.starting_stacks} != '
                            f'{list(s.starting_stacks)}')
        eb = [Decimal(str(x)) * sc for x in s.blinds_or_straddles]
        gb = [Decimal(str(x)) for x in hh.blinds_or_straddles]
        if gb != eb:
            problems.append(f'blinds {hh.blinds_or_straddles} != '
                            f'{list(s.blinds_or_straddles)}')
        if hh.seats is not None and list(hh.seats) != seats:
            problems.append(f'seats {hh.seats} != {seats}')
        got = imported_actions(hh)
        # betting and board actions in order; shown hands as a set (some
        # formats list them in the summary, iPoker as known pocket cards)
        gseq = [a for a in got if a[0] != 'sm']
        eseq = [a for a in exp if a[0] != 'sm']
        if gseq != eseq:
            k = next((i for i, (x, y) in enumerate(zip(gseq, eseq))
                      if x != y), min(len(gseq), len(eseq)))
            problems.append(
                f'actions differ at #{k}: imported {gseq[k:k + 2]}, played '
                f'{eseq[k:k + 2]}')
        gshow = {(a[1], a[2]) for a in got if a[0] == 'sm'}
        eshow = {(a[1], a[2]) for a in exp if a[0] == 'sm'}
        if site == 'ipoker':
            gshow = set()
            for a in hh.actions:
                w = a.split()
                if w[:2] == ['d', 'dh'] and '?' not in w[3]:
                    gshow.add((int(w[2][1:]) - 1, tuple(
                        w[3][i:i + 2] for i in range(0, len(w[3]), 2))))
        if gshow != eshow:
            problems.append(f'shown hands imported {sorted(gshow)} != '
                            f'played {sorted(eshow)}')
        if kwargs.get('hero') is not None:
            h = kwargs['hero']
            line = next((a for a in hh.actions
                         if a.startswith(f'd dh p{h + 1} ')), '')
            if ''.join(map(repr, r['holes'][h])) not in line:
                problems.append(f'hero hole cards not imported: {line!r}')
        kf = None
        if not problems:
            try:
                fin = replay_stacks(hh)
                gs = [Decimal(str(x)) for x in fin.stacks]
                es = [Decimal(str(x)) * sc for x in s.stacks]
                # odd cents of chopped pots in the original (integer-cent)
                # hand: per push to >= 2 winners, what the first winner got
                # on top of the equal share
                odd = 0
                for o in s.operations:
                    if type(o).__name__ == 'ChipsPushing':
                        pos = [a for a in o.amounts if a > 0]
                        if len(pos) >= 2:
                            odd += max(pos) - min(pos)
                # whole units the REPLAY gave to the first of several
                # winners because that pot's amount was an int (the log
                # mixes '$35' and '$98.03': parse_value makes the former an
                # int, and a pot made of ints only is split by integer
                # division)
                int_odd = 0
                for o in fin.operations:
                    if type(o).__name__ == 'ChipsPushing':
                        pos = [a for a in o.amounts if a > 0]
                        if len(pos) >= 2 and all(
                                isinstance(a, int) for a in pos):
                            int_odd += max(pos) - min(pos)
                agree = abs(sum(gs) - sum(es)) < Decimal('1e-18')
                # (28-digit Decimal thirds do not add up exactly)
                if not fin.status and gs != es and sc != 1 and odd and all(
                        abs(a - b) < odd * sc for a, b in zip(gs, es)) \
                        and agree:
                    # a chopped pot: the Decimal replay divides the odd
                    # cent(s) exactly, the log gives them to one player
                    kf = 'decimal_chop_subcent'
                elif not fin.status and gs != es and sc != 1 and int_odd \
                        and agree and all(
                            abs(a - b) < int_odd + odd * sc
                            for a, b in zip(gs, es)):
                    kf = 'mixed_int_decimal_chop'
                if fin.status or gs != es:
                    problems.append(
                        f'replay ends with stacks {list(fin.stacks)} '
                        f'(status {fin.status}); the log says '
                        f'{list(s.stacks)}')
            except Exception as e:   # noqa: BLE001
                problems.append(f'replay raised {type(e).__name__}: {e}')
        if problems:
            res.violation(f'{site}: ' + '; '.join(problems[:3])
                          + f' || {what} || {text[:1200]}', payload, kf=kf)
            continue
        if showdown:
            res.counters['showdown_imports'] += 1
        if nraise >= 2:
            res.counters['reraise_hands'] += 1
        if s.all_in_status:
            res.counters['allin_hands'] += 1
        if sc != 1:
            res.counters['decimal_hands'] += 1
        if hh.winnings is not None and [
                Decimal(str(x)) for x in hh.winnings] != [
                Decimal(str(x)) for x in r['collected']]:
            res.counters['winnings_field_differs(observed)'] += 1
        if nraise or showdown:
            shape = ' '.join(a[0] for a in exp)
            res.sigs.add(sig(site, n, shape))
        # corruptions
        if rng.random() < 0.25:
            check_corruptions(res, rng, site, meth, text, s, payload, what,
                              sc)
        carry.setdefault(site, []).append(
            (text, [x * sc for x in s.stacks], meth))
    res.add_sample({'hand': what, 'pokerstars_text':
                    sites.pokerstars(r)[:700]}, limit=1)


def check_corruptions(res, rng, site, meth, text, s, payload, what, sc=1):
    lines = text.split('\n')
    idx = [i for i, ln in enumerate(lines)
           if any(w in ln.lower() for w in ('raises', 'bets', 'type="23"',
                                            'type="5"'))]
    variants = []
    if idx:
        i = rng.choice(idx)
        import re
        bad = re.sub(r'(\d[\d,]*(\.\d+)?)', '99999999', lines[i], count=1) \
            if site != 'ipoker' else re.sub(r'sum="\D?[0-9.,]+"',
                                             'sum="$99999999"', lines[i])
        if site == 'pokerstars' and ' to ' in lines[i]:
            bad = re.sub(r'raises \D?[0-9.]+', 'raises $99999999', lines[i])
        variants.append(('absurd-raise', '\n'.join(
            lines[:i] + [bad] + lines[i + 1:])))
    for kind, t in variants:
        res.counters['corruptions_checked'] += 1
        hhs, msgs, exc = run_import(meth, t)
        if exc is not None or msgs or not hhs:
            res.counters['corruptions_reported'] += 1
            continue
        try:
            fin = replay_stacks(hhs[0])
        except Exception:   # noqa: BLE001
            res.counters['corruptions_reported'] += 1
            continue
        if [Decimal(str(x)) for x in fin.stacks] != [
                Decimal(str(x)) * sc for x in s.stacks]:
            res.violation(
                f'{site}: corrupted log ({kind}) was imported without any '
                f'warning and replays to stacks {list(fin.stacks)} instead '
                f'of {list(s.stacks)} || {what} || {t[:1200]}',
                dict(payload, corruption=kind))
        else:
            res.counters['corruptions_harmless'] += 1


def check_multi(res, rng, carry):
    for site, items in carry.items():
        if len(items) < 3:
            continue
        pick = items[-3:]
        text = ''.join(t for t, _, _ in pick)
        if site == 'ipoker':
            text = '<session>\n' + text + '</session>\n\n\n'
        hhs, msgs, exc = run_import(pick[0][2], text)
        res.counters['multi_hand_texts'] += 1
        if exc is not None or len(hhs) != 3:
            res.violation(f'{site}: three hands in one text gave '
                          f'{len(hhs)} histories ({exc!r}, {msgs[:2]})',
                          {'multi': site, 'text': text[:3000]})
            continue
        for hh, (_, stacks, _) in zip(hhs, pick):
            fin = replay_stacks(hh)
            if [Decimal(str(x)) for x in fin.stacks] != [
                    Decimal(str(x)) for x in stacks]:
                res.violation(f'{site}: hand inside a multi-hand text '
                              f'replays to {list(fin.stacks)} != {stacks}',
                              {'multi': site, 'text': text[:3000]})
        carry[site] = []


def run_shard(seed, shard, of, tier, deadline):
    res = Shard()
    rng = random.Random(shard_seed(seed, PROP, shard))
    n = max(1, CASES[tier] // of)
    carry = {}
    for k in range(n):
        if time.time() > deadline:
            res.truncated = True
            break
        check_hand(res, rng, carry)
        if k % 5 == 4:
            check_multi(res, rng, carry)
    return res


def replay(payload):
    if 'multi' in payload:
        return [{'what': 'multi-hand witness: see text in the replay file',
                 'kf': None}]
    cfg = hist.dec_cfg(payload['cfg'])
    ctx = driver.replay_script(cfg, payload['script'], [], PROP)
    s = ctx.state
    sc = cfg.get('scale', 1)
    r = sites.hand_record(s, payload['names'], payload['seats'],
                          payload['hand_id'], sc)
    site = payload['site']
    render, meth = sites.RENDERERS[site]
    text = render(r, **payload.get('kwargs', {}))
    hhs, msgs, exc = run_import(meth, text)
    out = []
    if exc is not None or len(hhs) != 1:
        out.append({'what': f'{site}: {len(hhs)} histories, {exc!r}',
                    'kf': None})
        return out
    hh = hhs[0]
    if list(hh.players or []) != payload['names']:
        out.append({'what': f'{site}: players {hh.players}', 'kf': None})
    if [a for a in imported_actions(hh) if a[0] != 'sm'] != [
            a for a in norm_actions(expected_actions(s), sc)
            if a[0] != 'sm']:
        out.append({'what': f'{site}: actions differ: {hh.actions}',
                    'kf': None})
    try:
        fin = replay_stacks(hh)
        if [Decimal(str(x)) for x in fin.stacks] != [
                Decimal(str(x)) * sc for x in s.stacks]:
            out.append({'what': f'{site}: replay stacks {fin.stacks} != '
                        f'{s.stacks}', 'kf': None})
    except Exception as e:   # noqa: BLE001
        out.append({'what': f'{site}: replay raised {e}', 'kf': None})
    return out
