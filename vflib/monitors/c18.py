"""C18 -- range notation, equities and ICM values are mathematically
consistent (algebraic identities + agreement with the engine's showdown)."""
from __future__ import annotations

from fractions import Fraction
from itertools import combinations, permutations, product
import math
import random
import time

from vflib import load, gen
from vflib.run import Shard, shard_seed, sig
import pokerkit
from pokerkit import (
    Automation, BettingStructure, Card, Deck, Mode, Opening, RankOrder,
    State, Street, calculate_equities, calculate_hand_strength,
    calculate_icm, parse_range,
)
from pokerkit import hands as pk_hands

PROP = 'C18'
RULE = (
    'ranges (exhaustive every run): for all 13x13 ordered rank pairs and '
    'every form (XY, XYs, XYo, XX, "+" forms, "-" intervals with and without '
    's/o, explicit cards) the parsed set is compared with a directly '
    'constructed set -- 6/4/12/16 combinations, XY = XYs (+) XYo disjoint, '
    '"+" and "-" equal the union of what they abbreviate (also with the '
    'ranks written in the other order), separators , ; space and several '
    'arguments are interchangeable, every element is two distinct real '
    'cards; also in the short-deck and ace-low rank orders, the three '
    'orders run in sequence in one process. Equities: seeded fully '
    'specified deals (2-6 players, every hand-type tuple incl. hi-lo, '
    'Omaha, short-deck, badugi) must give the same non-negative shares '
    'summing to 1 for sample counts 1, 7 and 50 and equal the split the '
    'ENGINE pays when the same cards are played to showdown with equal '
    'Fraction stacks; ranges padded with dead combinations (board cards) '
    'give the same equities; partial deals: non-negative, sum 1, and with '
    'at most two unknown cards the Monte-Carlo estimate (300 samples) lies '
    'within 6 standard errors of the exact value from enumerating every '
    'completion; hand strength in [0,1]. ICM: non-negative, sum = prize pool, weakly ordered as the chips '
    'for non-increasing payouts, equal chips => equal values, and equal to '
    'an independent Malmuth-Harville recursion. distinct_nontrivial = '
    'distinct (kind, form / hand-type tuple / vector shape) cases.')
ASSUMPTIONS = [
    'engine showdown split as decided by C02 (the engine is the oracle for '
    '"the split the game engine itself would pay")',
    'floating point: equities compared within 1e-9, ICM within 1e-9 relative',
]
CASES = {'quick': 2400, 'thorough': 40000}
TIME = {'quick': 70, 'thorough': 540}
MIN_NONTRIVIAL = {'quick': 1000, 'thorough': 2500}
REQUIRED = ('resplit_deals_compared', 'range_forms_checked', 'range_plus_forms', 'range_interval_forms',
            'full_deals_checked', 'hilo_deals', 'no_low_deals',
            'engine_showdowns_compared', 'partial_deals_checked',
            'icm_vectors_checked', 'icm_reference_compared',
            'dead_combination_deals', 'rank_order_passes',
            'convergence_checks', 'call_form_variants',
            'sampled_deals_inspected')

STD = '23456789TJQKA'
SUITS = 'cdhs'


def combos(r0, r1, kind):
    """Directly constructed set for ranks r0, r1 and kind in '', 's', 'o'."""
    out = set()
    if r0 == r1:
        if kind == 's':
            return out
        for s0, s1 in combinations(SUITS, 2):
            out.add(frozenset(Card.parse(f'{r0}{s0}{r1}{s1}')))
        return out
    for s0, s1 in product(SUITS, repeat=2):
        if kind == 's' and s0 != s1:
            continue
        if kind == 'o' and s0 == s1:
            continue
        out.add(frozenset(Card.parse(f'{r0}{s0}{r1}{s1}')))
    return out


def check_ranges(res, order=STD, rank_order=None):
    kw = {} if rank_order is None else {'rank_order': rank_order}
    tag = 'std' if rank_order is None else (
        'short' if len(order) == 9 else 'regular')

    def pr(*a):
        return parse_range(*a, **kw)

    def bad(text, got, exp):
        res.violation(
            f'parse_range({text!r}) [{tag}] has {len(got)} combinations, '
            f'expected {len(exp)}; missing '
            f'{sorted(map(sorted_repr, exp - got))[:3]}, extra '
            f'{sorted(map(sorted_repr, got - exp))[:3]}',
            {'kind': 'range', 'text': text, 'order': tag})

    for r0 in order:
        for r1 in order:
            for kind in ('', 's', 'o'):
                text = f'{r0}{r1}{kind}'
                exp = combos(r0, r1, kind)
                if r0 == r1 and kind == 'o':
                    exp = combos(r0, r1, '')
                got = pr(text)
                res.counters['range_forms_checked'] += 1
                if got != exp:
                    bad(text, got, exp)
                n = {True: {'': 6, 's': 0, 'o': 6},
                     False: {'': 16, 's': 4, 'o': 12}}[r0 == r1][kind]
                if len(got) != n:
                    res.violation(f'{text} [{tag}] has {len(got)} '
                                  f'combinations, expected {n}',
                                  {'kind': 'range', 'text': text,
                                   'order': tag})
                for e in got:
                    if len(e) != 2 or not all(e):
                        res.violation(f'{text}: element {e} is not two '
                                      f'distinct real cards',
                                      {'kind': 'range', 'text': text,
                                       'order': tag})
                res.sigs.add(sig('range', tag, text))
            if r0 != r1:
                a, b = pr(f'{r0}{r1}s'), pr(f'{r0}{r1}o')
                if a & b or (a | b) != pr(f'{r0}{r1}'):
                    res.violation(f'{r0}{r1} is not the disjoint union of '
                                  f'{r0}{r1}s and {r0}{r1}o',
                                  {'kind': 'range', 'text': f'{r0}{r1}',
                                   'order': tag})
            # plus forms
            i0, i1 = order.index(r0), order.index(r1)
            for kind in ('', 's', 'o'):
                text = f'{r0}{r1}{kind}+'
                if r0 == r1:
                    if kind:
                        continue
                    exp = set()
                    for r in order[i0:]:
                        exp |= combos(r, r, '')
                else:
                    hi, lo = max(i0, i1), min(i0, i1)
                    exp = set()
                    for j in range(lo, hi):
                        exp |= combos(order[hi], order[j], kind)
                try:
                    got = pr(text)
                except Exception as exc:   # noqa: BLE001
                    res.violation(f'parse_range({text!r}) raised '
                                  f'{type(exc).__name__}: {exc}',
                                  {'kind': 'range', 'text': text,
                                   'order': tag})
                    continue
                res.counters['range_plus_forms'] += 1
                if got != exp:
                    bad(text, got, exp)
                res.sigs.add(sig('range+', tag, text))
    # intervals XY-ZW (same gap), with s/o
    for i0 in range(len(order)):
        for i1 in range(len(order)):
            for shift in (1, 2, 3, -1, -2):
                j0, j1 = i0 + shift, i1 + shift
                if not (0 <= j0 < len(order) and 0 <= j1 < len(order)):
                    continue
                for kind in ('', 's', 'o'):
                    if i0 == i1 and kind:
                        continue
                    a = f'{order[i0]}{order[i1]}{kind}'
                    b = f'{order[j0]}{order[j1]}{kind}'
                    text = f'{a}-{b}'
                    exp = set()
                    lo, hi = min(0, shift), max(0, shift)
                    for t in range(lo, hi + 1):
                        r0, r1 = order[i0 + t], order[i1 + t]
                        exp |= combos(r0, r1, kind if r0 != r1 else '')
                    try:
                        got = pr(text)
                    except Exception as exc:   # noqa: BLE001
                        res.violation(f'parse_range({text!r}) raised '
                                      f'{type(exc).__name__}: {exc}',
                                      {'kind': 'range', 'text': text,
                                       'order': tag})
                        continue
                    res.counters['range_interval_forms'] += 1
                    if got != exp:
                        bad(text, got, exp)
                    res.sigs.add(sig('range-', tag, text))
    # mismatched gaps must be refused
    for text in ('AK-Q9', '99-AK', 'AKs-QTs'):
        try:
            pr(text)
        except ValueError:
            continue
        except Exception:   # noqa: BLE001
            pass
        res.violation(f'parse_range({text!r}) accepted a dash form whose '
                      f'two ends are not a shifted version of each other',
                      {'kind': 'range', 'text': text, 'order': tag})


def sorted_repr(e):
    return ''.join(sorted(map(repr, e)))


def check_separators(res, rng):
    order = STD
    parts = []
    for _ in range(rng.randint(2, 5)):
        r0, r1 = rng.choice(order), rng.choice(order)
        k = rng.choice(['', 's', 'o', '+']) if r0 != r1 else \
            rng.choice(['', '+'])
        parts.append(f'{r0}{r1}{k}')
    parts.append(rng.choice(['AsKs', '2c2d', 'JsTh']))
    exp = set()
    for p in parts:
        exp |= parse_range(p)
    for sep in (',', ';', ' ', ', ', ' ; ', ';,'):
        got = parse_range(sep.join(parts))
        res.counters['range_forms_checked'] += 1
        if got != exp:
            res.violation(f'parse_range({sep.join(parts)!r}) differs from '
                          f'the union of its parts',
                          {'kind': 'sep', 'parts': parts, 'sep': sep})
    if parse_range(*parts) != exp:
        res.violation(f'parse_range(*{parts}) differs from the union',
                      {'kind': 'sep', 'parts': parts, 'sep': 'args'})


TUPLES = [
    (('StandardHighHand',), 'STANDARD', 2, 5),
    (('StandardHighHand', 'EightOrBetterLowHand'), 'STANDARD', 2, 5),
    (('OmahaHoldemHand',), 'STANDARD', 4, 5),
    (('OmahaHoldemHand', 'OmahaEightOrBetterLowHand'), 'STANDARD', 4, 5),
    (('ShortDeckHoldemHand',), 'SHORT_DECK_HOLDEM', 2, 5),
    (('StandardHighHand', 'EightOrBetterLowHand'), 'STANDARD', 7, 0),
    (('RegularLowHand',), 'REGULAR', 7, 0),
    (('BadugiHand',), 'REGULAR', 4, 0),
    (('StandardLowHand',), 'STANDARD', 5, 0),
    (('GreekHoldemHand',), 'STANDARD', 2, 5),
]


def engine_split(hand_types, deck, holes, board, nplayers):
    """Shares the engine pays for these cards: equal stacks, all-in, one pot."""
    n = nplayers
    hole_n = len(holes[0])
    streets = [Street(False, (False,) * hole_n, 0, False, Opening.POSITION,
                      2, None)]
    if board:
        streets.append(Street(False, (), len(board), False,
                              Opening.POSITION, 2, None))
    autos = tuple(a for a in Automation
                  if a not in (Automation.HOLE_DEALING,
                               Automation.BOARD_DEALING))
    s = State(autos, Deck[deck],
              tuple(getattr(pk_hands, h) for h in hand_types),
              tuple(streets), BettingStructure.NO_LIMIT, True,
              Fraction(1), 0, 0, [Fraction(1)] * n, n)
    for i, h in enumerate(holes):
        s.deal_hole(h, i)
    if board:
        s.deal_board(board)
    if s.status:
        raise RuntimeError('engine showdown did not finish')
    total = Fraction(n)
    return [(p + 1) / total for p in s.payoffs]


def text(cards):
    return ''.join(map(repr, cards))


def check_equities(res, rng):
    hts, deck, hole_n, board_n = rng.choice(TUPLES)
    hand_types = tuple(getattr(pk_hands, h) for h in hts)
    d = list(Deck[deck])
    n = rng.randint(2, min(6, (len(d) - board_n) // hole_n))
    if rng.random() < 0.4 and len(hts) > 1:
        # low-unfriendly cards so that nobody qualifies now and then
        pool = [c for c in d if c.rank.value in '9TJQKA'
                or rng.random() < 0.25]
        if len(pool) < n * hole_n + board_n:
            pool = d
    else:
        pool = d
    cards = rng.sample(pool, n * hole_n + board_n)
    holes = [tuple(cards[i * hole_n:(i + 1) * hole_n]) for i in range(n)]
    board = tuple(cards[n * hole_n:])
    payload = {'kind': 'equity', 'hand_types': list(hts), 'deck': deck,
               'holes': [''.join(map(repr, h)) for h in holes],
               'board': ''.join(map(repr, board))}
    results = []
    for k in (1, 7, 50):
        try:
            eq = calculate_equities(
                [[h] for h in holes], board, hole_n, board_n, Deck[deck],
                hand_types, sample_count=k)
        except Exception as exc:   # noqa: BLE001
            res.violation(f'calculate_equities raised '
                          f'{type(exc).__name__}: {exc} for {payload}',
                          payload)
            return
        results.append(eq)
        if any(x < -1e-12 for x in eq) or abs(sum(eq) - 1) > 1e-9:
            res.violation(f'equities {eq} (sample_count={k}) are not '
                          f'non-negative shares summing to 1: {payload}',
                          payload)
            return
    res.counters['full_deals_checked'] += 1
    if len(hts) > 1:
        res.counters['hilo_deals'] += 1
        low = hand_types[1]
        if all(low.from_game_or_none(h, board) is None for h in holes):
            res.counters['no_low_deals'] += 1
    if any(abs(a - b) > 1e-9 for r in results[1:]
           for a, b in zip(results[0], r)):
        res.violation(f'fully specified deal but the equities depend on '
                      f'the sample count: {results}: {payload}', payload)
        return
    if rng.random() < 0.2:
        # the same fully specified deal through the other documented call
        # forms: hand types as a list / one-shot iterator / generator, an
        # executor, sample counts that are not round numbers
        k = rng.choice([2, 3, 101, 137, 250])
        form = rng.choice(['list', 'iterator', 'generator', 'tuple'])
        hts_arg = {'list': list(hand_types), 'iterator': iter(hand_types),
                   'generator': (h for h in hand_types),
                   'tuple': hand_types}[form]
        ex = None
        if rng.random() < 0.5:
            from concurrent.futures import ThreadPoolExecutor
            ex = ThreadPoolExecutor(2)
        try:
            eq = calculate_equities(
                [[h] for h in holes], board, hole_n, board_n, Deck[deck],
                hts_arg, sample_count=k, executor=ex)
        except Exception as exc:   # noqa: BLE001
            res.violation(f'calculate_equities(hand types as {form}, '
                          f'sample_count={k}, executor={ex is not None}) '
                          f'raised {type(exc).__name__}: {exc} for {payload}',
                          payload)
            return
        finally:
            if ex is not None:
                ex.shutdown()
        res.counters['call_form_variants'] += 1
        if any(abs(a - b) > 1e-9 for a, b in zip(results[0], eq)):
            res.violation(
                f'fully specified deal: calculate_equities(hand types as '
                f'{form}, sample_count={k}, executor='
                f'{"ThreadPoolExecutor" if ex is not None else None}) = '
                f'{eq}, the plain call gives {results[0]}: {payload}',
                payload)
            return
    if board and rng.random() < 0.4:
        # ranges padded with DEAD combinations (each uses a board card, so
        # it can never be dealt): the one feasible deal is
        # unchanged, so the equities must be too, whatever is sampled
        ranges = []
        for i, h in enumerate(holes):
            rg = [tuple(h)]
            for _ in range(rng.randint(1, 3)):
                dead = list(h)
                dead[rng.randrange(hole_n)] = rng.choice(board)
                if len(set(dead)) == hole_n:
                    rg.append(tuple(dead))
            rng.shuffle(rg)
            ranges.append(rg)
        res.counters['dead_combination_deals'] += 1
        for k in (1, 9):
            try:
                eq = calculate_equities(ranges, board, hole_n, board_n,
                                        Deck[deck], hand_types,
                                        sample_count=k)
            except Exception as exc:   # noqa: BLE001
                res.violation(f'calculate_equities raised '
                              f'{type(exc).__name__}: {exc} with dead '
                              f'combinations {ranges} for {payload}',
                              payload)
                return
            if any(abs(a - b) > 1e-9 for a, b in zip(results[0], eq)):
                res.violation(
                    f'ranges padded with dead combinations (each uses a '
                    f'board card) change the equities: {eq} vs '
                    f'{results[0]}; ranges '
                    f'{[[text(c) for c in r] for r in ranges]}: {payload}',
                    payload)
                return
    try:
        exp = engine_split(hts, deck, holes, board, n)
    except Exception as exc:   # noqa: BLE001
        res.counters['engine_showdown_failed'] += 1
        return
    res.counters['engine_showdowns_compared'] += 1
    # the engine gives odd fractions exactly (Fraction chips)
    if any(abs(float(e) - g) > 1e-9 for e, g in zip(exp, results[0])):
        res.violation(
            f'equities {results[0]} differ from the split the engine pays '
            f'{[str(e) for e in exp]} for {payload}', payload)
    res.sigs.add(sig('equity', hts, n, tuple(round(x, 6)
                                             for x in results[0])))
    if board and rng.random() < 0.35:
        # the same cards split differently: one player's hole card changes
        # places with a board card (for Omaha / Greek hands which cards are
        # in the hole matters; an answer remembered by the set of cards
        # would be stale)
        i = rng.randrange(n)
        j, k = rng.randrange(hole_n), rng.randrange(board_n)
        h2 = list(holes[i])
        b2 = list(board)
        h2[j], b2[k] = b2[k], h2[j]
        holes2 = list(holes)
        holes2[i] = tuple(h2)
        board2 = tuple(b2)
        payload2 = dict(payload, holes=[text(h) for h in holes2],
                        board=text(board2))
        try:
            eq2 = calculate_equities(
                [[h] for h in holes2], board2, hole_n, board_n, Deck[deck],
                hand_types, sample_count=1)
            exp2 = engine_split(hts, deck, holes2, board2, n)
        except Exception as exc:   # noqa: BLE001
            res.counters['resplit_failed'] += 1
            return
        res.counters['resplit_deals_compared'] += 1
        if any(abs(float(e) - g) > 1e-9 for e, g in zip(exp2, eq2)):
            res.violation(
                f'after the same cards were evaluated with another split '
                f'(hole card {h2[j]!r} <-> board card {b2[k]!r} of player '
                f'{i}): equities {eq2} differ from the split the engine '
                f'pays {[str(e) for e in exp2]} for {payload2} (first deal '
                f'{payload})', payload2)


def exact_shares(hand_types, holes, board):
    """Shares of one pot for fully known cards (Fractions), as the engine
    pays: hand types somebody qualifies for share the pot equally, ties
    split."""
    n = len(holes)
    per_type = []
    for ht in hand_types:
        hands = [ht.from_game_or_none(h, board) for h in holes]
        if any(h is not None for h in hands):
            per_type.append(hands)
    out = [Fraction(0)] * n
    if not per_type:
        return [Fraction(1, n)] * n
    for hands in per_type:
        best = max(h for h in hands if h is not None)
        win = [i for i, h in enumerate(hands) if h is not None and h == best]
        for i in win:
            out[i] += Fraction(1, len(per_type) * len(win))
    return out


def check_convergence(res, rng):
    """Partially specified deal with at most two unknown cards: the exact
    equity (enumeration of every completion) vs the Monte-Carlo estimate,
    which must lie within 6 standard errors (false-alarm odds ~2e-9 per
    comparison)."""
    hts, deck, hole_n, board_n = rng.choice(
        [t for t in TUPLES if t[3] == 5 and t[2] == 2][:3] or TUPLES[:1])
    hand_types = tuple(getattr(pk_hands, h) for h in hts)
    d = list(Deck[deck])
    n = rng.randint(2, 3)
    cards = rng.sample(d, n * hole_n + board_n)
    holes = [list(cards[i * hole_n:(i + 1) * hole_n]) for i in range(n)]
    board = list(cards[n * hole_n:])
    # hide one or two cards: hole cards of one player and/or board cards
    hidden = rng.choice([('h',), ('h', 'h'), ('h', 'b'), ('b',), ('b', 'b')])
    victim = rng.randrange(n)
    kh = list(holes[victim])
    kb = list(board)
    for w in hidden:
        if w == 'h' and kh:
            kh.pop()
        elif kb:
            kb.pop()
    need_h = hole_n - len(kh)
    need_b = board_n - len(kb)
    known = [c for i, h in enumerate(holes) if i != victim for c in h] \
        + kh + kb
    rest = [c for c in d if c not in known]
    from itertools import permutations, combinations
    total = [Fraction(0)] * n
    count = 0
    for hc in combinations(rest, need_h):
        rest2 = [c for c in rest if c not in hc]
        for bc in combinations(rest2, need_b):
            hs = [tuple(kh) + hc if i == victim else tuple(h)
                  for i, h in enumerate(holes)]
            sh = exact_shares(hand_types, hs, tuple(kb) + bc)
            for i in range(n):
                total[i] += sh[i]
            count += 1
    exact = [float(t / count) for t in total]
    ranges = [[tuple(kh)] if i == victim else [tuple(h)]
              for i, h in enumerate(holes)]
    # a spy at the evaluator boundary: every sample must be a DEAL -- the
    # cards the players and the board hold are pairwise distinct and
    # contain the known cards
    calls = []
    spies = []
    for ht in hand_types:
        def make(base):
            class Spy(base):
                @classmethod
                def from_game_or_none(cls, hole_cards, board_cards=()):
                    hc, bc = tuple(hole_cards), tuple(board_cards)
                    calls.append((hc, bc))
                    return base.from_game_or_none(hc, bc)
            Spy.__name__ = base.__name__
            return Spy
        spies.append(make(ht))
    try:
        calculate_equities(ranges, kb, hole_n, board_n, Deck[deck],
                           tuple(spies), sample_count=40)
    except Exception as exc:   # noqa: BLE001
        res.violation(f'calculate_equities raised {type(exc).__name__}: '
                      f'{exc} with spying hand types', {'kind': 'spy'})
        return
    per = n * len(hand_types)
    for g in range(0, len(calls) - per + 1, per):
        grp = calls[g:g + n]
        cards_seen = [c for hc, _ in grp for c in hc] + list(grp[0][1])
        res.counters['sampled_deals_inspected'] += 1
        if len(set(cards_seen)) != len(cards_seen) or any(
                len(hc) != hole_n for hc, _ in grp) or \
                len(grp[0][1]) != board_n:
            dup = sorted({repr(c) for c in cards_seen
                          if cards_seen.count(c) > 1})
            res.violation(
                f'a sampled deal is not a deal: holes '
                f'{[text(hc) for hc, _ in grp]} board {text(grp[0][1])} '
                f'(duplicated {dup}) for ranges '
                f'{[[text(c) for c in r] for r in ranges]} board '
                f'{text(kb)}', {'kind': 'spy', 'ranges': [
                    [text(c) for c in r] for r in ranges],
                    'board': text(kb)})
            return
    N = 300
    payload = {'kind': 'convergence', 'hand_types': list(hts),
               'ranges': [[text(c) for c in r] for r in ranges],
               'board': text(kb)}
    try:
        eq = calculate_equities(ranges, kb, hole_n, board_n, Deck[deck],
                                hand_types, sample_count=N)
    except Exception as exc:   # noqa: BLE001
        res.violation(f'calculate_equities raised {type(exc).__name__}: '
                      f'{exc} for {payload}', payload)
        return
    res.counters['convergence_checks'] += 1
    for i in range(n):
        p = exact[i]
        # a share lies in [0, 1]: its variance is at most p(1-p)
        bound = 6 * math.sqrt(max(p * (1 - p), 1e-4) / N) + 1e-9
        if abs(eq[i] - p) > bound:
            res.violation(
                f'Monte-Carlo equity of player {i} = {eq[i]:.4f} with {N} '
                f'samples, exact enumeration over {count} completions gives '
                f'{p:.4f} (6 sigma = {bound:.4f}); all: {eq} vs {exact} for '
                f'{payload}', payload)
            return
    res.sigs.add(sig('conv', hts, n, hidden, tuple(round(x, 3)
                                                   for x in exact)))


def check_partial(res, rng):
    hts, deck, hole_n, board_n = rng.choice(TUPLES[:5])
    hand_types = tuple(getattr(pk_hands, h) for h in hts)
    d = list(Deck[deck])
    n = rng.randint(2, 4)
    known_board = rng.choice([0, 3, 4]) if board_n else 0
    cards = rng.sample(d, n * hole_n + known_board)
    ranges = []
    for i in range(n):
        h = cards[i * hole_n:(i + 1) * hole_n]
        k = rng.random()
        if k < 0.5:
            ranges.append([tuple(h)])
        elif k < 0.8 and hole_n == 2 and deck == 'STANDARD':
            ranges.append(parse_range(rng.choice(
                ['AKs', 'QQ+', 'T9s-76s', 'A2o+', 'JJ'])))
        else:
            ranges.append([tuple(h[:rng.randint(0, hole_n)])])
    board = cards[n * hole_n:]
    payload = {'kind': 'partial', 'hand_types': list(hts)}
    try:
        eq = calculate_equities(ranges, board, hole_n, board_n, Deck[deck],
                                hand_types, sample_count=rng.choice([3, 20]))
    except (ValueError, IndexError) as exc:
        res.counters['partial_deals_infeasible'] += 1
        return
    except Exception as exc:   # noqa: BLE001
        res.violation(f'calculate_equities (partial deal) raised '
                      f'{type(exc).__name__}: {exc}', payload)
        return
    res.counters['partial_deals_checked'] += 1
    if any(x < -1e-12 for x in eq) or abs(sum(eq) - 1) > 1e-9:
        res.violation(f'partial deal: equities {eq} are not non-negative '
                      f'shares summing to 1 ({hts}, {n} players)', payload)
    hs = calculate_hand_strength(
        n, [tuple(cards[:hole_n])], board, hole_n, board_n, Deck[deck],
        hand_types, sample_count=5)
    if not -1e-12 <= hs <= 1 + 1e-12:
        res.violation(f'hand strength {hs} outside [0, 1]', payload)
    res.sigs.add(sig('partial', hts, n, known_board))


def ref_icm(payouts, chips):
    """Independent Malmuth-Harville recursion with exact fractions."""
    chips = [Fraction(c) for c in chips]
    payouts = [Fraction(p) for p in payouts]
    n = len(chips)
    out = [Fraction(0)] * n

    def rec(remaining, prob, place):
        if place >= len(payouts) or not remaining:
            return
        tot = sum(chips[i] for i in remaining)
        for i in remaining:
            p = prob * chips[i] / tot
            out[i] += p * payouts[place]
            rec([j for j in remaining if j != i], p, place + 1)
    rec(list(range(n)), Fraction(1), 0)
    return out


def check_icm(res, rng):
    n = rng.randint(2, 6)
    k = rng.randint(1, n)
    form = rng.random()
    if form < 0.5:
        chips = [rng.randint(1, 500) for _ in range(n)]
    elif form < 0.7:
        chips = [rng.randint(1, 5) for _ in range(n)]
    else:
        chips = [rng.randint(1, 10 ** 6) / 8 for _ in range(n)]
    payouts = sorted((rng.randint(0, 1000) for _ in range(k)), reverse=True)
    if rng.random() < 0.2:
        payouts = [p / 4 for p in payouts]
    payload = {'kind': 'icm', 'payouts': payouts, 'chips': chips}
    try:
        v = calculate_icm(payouts, chips)
    except Exception as exc:   # noqa: BLE001
        res.violation(f'calculate_icm({payouts}, {chips}) raised '
                      f'{type(exc).__name__}: {exc}', payload)
        return
    res.counters['icm_vectors_checked'] += 1
    pool = sum(payouts)
    tol = 1e-9 * max(1, pool)
    if len(v) != n or any(x < -tol for x in v):
        res.violation(f'ICM {v} has negative / missing values for '
                      f'{payload}', payload)
        return
    if abs(sum(v) - pool) > tol:
        res.violation(f'ICM values {v} sum to {sum(v)}, prize pool {pool} '
                      f'({payload})', payload)
    for i in range(n):
        for j in range(n):
            if chips[i] > chips[j] and v[i] < v[j] - tol:
                res.violation(f'ICM order: chips {chips[i]} > {chips[j]} '
                              f'but values {v[i]} < {v[j]} ({payload})',
                              payload)
                return
            if chips[i] == chips[j] and abs(v[i] - v[j]) > tol:
                res.violation(f'ICM: equal chips, different values '
                              f'{v[i]} / {v[j]} ({payload})', payload)
                return
    ref = ref_icm(payouts, chips)
    res.counters['icm_reference_compared'] += 1
    if any(abs(float(a) - b) > tol for a, b in zip(ref, v)):
        res.violation(f'ICM {v} differs from the Malmuth-Harville '
                      f'reference {[float(x) for x in ref]} ({payload})',
                      payload)
    res.sigs.add(sig('icm', n, k, tuple(sorted(chips)) == tuple(chips),
                     len(set(chips))))


def run_shard(seed, shard, of, tier, deadline):
    res = Shard()
    rng = random.Random(shard_seed(seed, PROP, shard))
    # the three rank orders are exercised one after the other in the same
    # process, in a different sequence per shard (answers may depend on the
    # arguments only, not on what was parsed before)
    seqs = {0: ('std', 'short', 'regular', 'std'),
            1: ('short', 'std', 'regular', 'short'),
            2: ('regular', 'short', 'std')}
    for which in seqs.get(shard if of > 1 else 0,
                          ('std',) if tier == 'thorough' else ()):
        if which == 'std':
            check_ranges(res)
        elif which == 'short':
            check_ranges(res, order='6789TJQKA',
                         rank_order=RankOrder.SHORT_DECK_HOLDEM)
        else:
            check_ranges(res, order='A23456789TJQK',
                         rank_order=RankOrder.REGULAR)
        res.counters['rank_order_passes'] += 1
    n = max(1, CASES[tier] // of)
    for k in range(n):
        if time.time() > deadline:
            res.truncated = True
            break
        check_equities(res, rng)
        if k % 3 == 0:
            check_partial(res, rng)
        if k % 4 == 0:
            check_convergence(res, rng)
        check_icm(res, rng)
        check_icm(res, rng)
        if k % 10 == 0:
            check_separators(res, rng)
    res.add_sample({'kinds': 'range identities (exhaustive), equity deals '
                    'vs engine showdown, ICM vectors vs reference'}, limit=1)
    res.evaluations = sum(res.counters[c] for c in (
        'range_forms_checked', 'range_plus_forms', 'range_interval_forms',
        'full_deals_checked', 'partial_deals_checked',
        'icm_vectors_checked'))
    return res


def replay(payload):
    res = Shard()
    rng = random.Random(1)
    k = payload.get('kind')
    if k == 'range':
        # (order effects: replay the sequence the shards use)
        check_ranges(res)
        check_ranges(res, order='6789TJQKA',
                     rank_order=RankOrder.SHORT_DECK_HOLDEM)
        check_ranges(res, order='A23456789TJQK',
                     rank_order=RankOrder.REGULAR)
        check_ranges(res)
    elif k == 'icm':
        v = calculate_icm(payload['payouts'], payload['chips'])
        ref = ref_icm(payload['payouts'], payload['chips'])
        if any(abs(float(a) - b) > 1e-9 * max(1, sum(payload['payouts']))
               for a, b in zip(ref, v)):
            res.violation(f'ICM {v} vs reference '
                          f'{[float(x) for x in ref]}', payload)
    elif k == 'equity':
        hts = payload['hand_types']
        holes = [tuple(Card.parse(h)) for h in payload['holes']]
        board = tuple(Card.parse(payload['board']))
        hand_types = tuple(getattr(pk_hands, h) for h in hts)
        eq = calculate_equities([[h] for h in holes], board, len(holes[0]),
                                len(board), Deck[payload['deck']],
                                hand_types, sample_count=5)
        exp = engine_split(hts, payload['deck'], holes, board, len(holes))
        if any(abs(float(e) - g) > 1e-9 for e, g in zip(exp, eq)):
            res.violation(f'equities {eq} vs engine '
                          f'{[str(e) for e in exp]}', payload)
    return [{'what': v['what'], 'kf': None} for v in res.violations]
