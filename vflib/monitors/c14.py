"""C14 -- multiple run-outs and multiple boards (trace + terminal structure)."""
from __future__ import annotations

from collections import Counter

from vflib import gen, driver, hist
from vflib.driver import Monitor, opname

PROP = 'C14'
RULE = (
    'seeded random all-in-heavy hands on every board game (6 predefined + '
    'Greek, hi-lo hold\'em, PLO8, Courchevel-like and random street lists), '
    'b in {1,2,3} starting boards, both modes, run-out preferences drawn '
    'from {None,1,2,3} per player in random explicit player order and '
    'interleaved with shows (deck-feasible counts only). Checked: selection '
    'is offered iff cash-game, all remaining players all-in, board cards '
    'still to come -- to exactly the remaining players, once each, never in '
    'tournament mode; agreed count = the common stated preference, else 1; '
    'b*r complete boards at the end; the r run-outs of a starting board '
    'share exactly its pre-all-in cards and no other card appears twice; '
    'the union of boards equals all BoardDealing cards; board/burn '
    'operations after the all-in = r x remaining streets; every pot is '
    'spread evenly over the b*r boards, its shares add up to the pot of the '
    'independent contribution model, and the division never raises. '
    'Non-trivial = an all-in hand with '
    'board cards to come (selection expected or tournament counterpart); '
    'distinct by (game, players, mode, boards, preferences, operation-kind '
    'sequence).')
ASSUMPTIONS = [
    'run-out counts are capped by what the remaining deck can serve',
    '"all-in with community cards to come" excludes hands with draw rounds '
    'still to come (players must still act)',
]
CASES = {'quick': 16000, 'thorough': 200000}
TIME = {'quick': 70, 'thorough': 560}
MIN_NONTRIVIAL = {'quick': 700, 'thorough': 7000}
NO_ASSERT_SHARDS = True     # odd shards: pokerkit's asserts compiled out
REQUIRED = ('allin_hands_with_board_to_come', 'selections_checked',
            'multi_runout_hands', 'disagreeing_preferences',
            'tournament_allin_hands', 'multi_board_hands',
            'terminal_board_structures_checked', 'explicit_order_selections',
            'pots_split_over_boards', 'pot_totals_compared')

CUSTOMS = ('greek', 'holdem8', 'plo8', 'courchevel', 'random')


def expect_selection(s):
    """cash game, >= 2 live, at most one with chips, boards still to come,
    no draw round to come, betting over."""
    if s.street_index is None or s.actor_index is not None:
        return False
    if (s.card_burning_status or any(s.hole_dealing_statuses)
            or any(s.board_dealing_counts)
            or any(s.standing_pat_or_discarding_statuses)):
        return False        # the current street is still being dealt
    live = [i for i in s.player_indices if s.statuses[i]]
    if len(live) < 2:
        return False
    if sum(1 for i in live if s.stacks[i]) > 1:
        return False
    later = s.streets[s.street_index + 1:]
    if not any(st.board_dealing_count for st in later):
        return False
    if any(st.draw_status for st in later):
        return False
    return True


class RunoutMonitor(Monitor):

    def on_begin(self, ctx):
        self.expected = None       # live set when the all-in was detected
        self.allin_at = None       # number of ops logged at that time
        self.sel = []              # (player, count) in order
        self.probed = False
        self.live_at_push = None

    def _detect(self, ctx, s):
        if self.expected is None and s.status and expect_selection(s) \
                and not any(s.bets):
            self.expected = [i for i in s.player_indices if s.statuses[i]]
            self.allin_at = len(s.operations)
            self.allin_street = s.street_index

    def on_op(self, ctx, s, op):
        k = type(op).__name__
        if k == 'ChipsPushing' and self.live_at_push is None:
            self.live_at_push = list(s.statuses)
        if k == 'RunoutCountSelection':
            self.sel.append((op.player_index, op.runout_count))
            if str(s.mode) == 'Tournament':
                ctx.violate('run-out selection performed in tournament mode')
        if k in ('BetCollection', 'Folding', 'CheckingOrCalling',
                 'HoleDealing', 'BoardDealing', 'CardBurning',
                 'StandingPatOrDiscarding'):
            # (a draw round played out by all-in players can be the last
            # thing before the selection: custom street lists with a draw
            # street followed by board streets)
            self._detect(ctx, s)

    def on_decision(self, ctx, s, avail):
        self._detect(ctx, s)
        cash = str(s.mode) != 'Tournament'
        offered = [i for i in s.player_indices
                   if s.can_select_runout_count(None, i)]
        if offered:
            ctx.counters['selections_checked'] += 1
            if not cash:
                ctx.violate(f'run-out selection offered to {offered} in '
                            f'tournament mode')
            if self.expected is None:
                ctx.violate(f'run-out selection offered to {offered} although '
                            f'not all remaining players are all-in with '
                            f'board cards to come (stacks {s.stacks}, '
                            f'statuses {s.statuses}, street {s.street_index})')
            else:
                done = [p for p, _ in self.sel]
                exp = [i for i in self.expected if i not in done]
                if sorted(offered) != sorted(exp):
                    ctx.violate(f'run-out selection offered to {offered}, '
                                f'expected the remaining players who have '
                                f'not chosen yet {exp}')
            # arguments: non-positive counts and wrong players are refused
            if not self.probed:
                self.probed = True
                i = offered[0]
                for bad in (0, -1):
                    if s.can_select_runout_count(bad, i):
                        ctx.violate(f'run-out count {bad} accepted')
                for j in s.player_indices:
                    if j not in offered and \
                            s.can_select_runout_count(2, j):
                        ctx.violate(f'player {j} (not pending) may select')

    def on_call(self, ctx, s, name, args):
        if name == 'select_runout_count' and len(args) == 2:
            ctx.counters['explicit_order_selections'] += 1

    def on_end(self, ctx, s):
        if 'op_exc' in ctx.data and s.board_count > 1:
            name, args, exc = ctx.data['op_exc']
            site = hist.exc_site(exc)
            if 'push_chips' in site or '_begin_chips_pushing' in site \
                    or name == 'push_chips':
                ctx.violate(f'dividing the pots over {s.board_count} boards '
                            f'failed: {name}{tuple(args)} raised '
                            f'{type(exc).__name__}: {exc} [{site}]')
        if s.status or 'op_exc' in ctx.data:
            return
        cash = ctx.cfg['mode'] != 'TOURNAMENT'
        b = s.starting_board_count
        if self.expected is None:
            if self.sel:
                ctx.violate(f'run-out selections {self.sel} in a hand '
                            f'without an all-in with board cards to come')
            return
        ctx.counters['allin_hands_with_board_to_come'] += 1
        ctx.tag('allin')
        if b > 1:
            ctx.counters['multi_board_hands'] += 1
        if not cash:
            ctx.counters['tournament_allin_hands'] += 1
            if self.sel:
                ctx.violate('selection in tournament mode')
            r = 1
        else:
            players = [p for p, _ in self.sel]
            if sorted(players) != sorted(self.expected):
                ctx.violate(f'run-out selections by {players}, expected '
                            f'exactly once by each of {self.expected}')
            prefs = [c for _, c in self.sel if c is not None]
            if prefs and all(c == prefs[0] for c in prefs):
                r = prefs[0]
            else:
                r = 1
            if len(set(prefs)) > 1:
                ctx.counters['disagreeing_preferences'] += 1
        ctx.data['prefs'] = tuple(self.sel)
        if r > 1:
            ctx.counters['multi_runout_hands'] += 1
            ctx.tag('runouts')
        if s.board_count != b * r:
            ctx.violate(f'{s.board_count} boards at the end, expected '
                        f'{b} starting boards x {r} run-outs (selections '
                        f'{self.sel})')
            return
        # no card twice: boards and the hands still in
        seen = [c for cards in (list(s.get_board_cards(j))
                                for j in range(s.board_count))
                for c in cards if c]
        shared = sum(st.board_dealing_count
                     for st in s.streets[:self.allin_street + 1])
        # (the r run-outs of a starting board share its first cards)
        uniq = []
        for j in range(s.board_count):
            cards = [c for c in s.get_board_cards(j) if c]
            # (boards k*r .. k*r+r-1 are the run-outs of starting board k)
            uniq.extend(cards if j % r == 0 else cards[shared:])
        uniq += [c for i in s.player_indices if s.statuses[i]
                 for c in s.hole_cards[i] if c]
        dup = sorted({repr(c) for c in uniq if uniq.count(c) > 1})
        if dup:
            ctx.violate(f'card(s) {dup} appear twice among the boards and '
                        f'the hands still in (boards '
                        f'{[list(s.get_board_cards(j)) for j in range(s.board_count)]}, '
                        f'hands {[list(h) for h in s.hole_cards]})')
        # board structure
        ctx.counters['terminal_board_structures_checked'] += 1
        per_board = sum(st.board_dealing_count for st in s.streets)
        pre = sum(st.board_dealing_count
                  for st in s.streets[:self.allin_street + 1])
        boards = [list(s.get_board_cards(j)) for j in range(b * r)]
        for j, cards in enumerate(boards):
            if len(cards) != per_board:
                ctx.violate(f'board {j} has {len(cards)} cards {cards}, '
                            f'expected {per_board}')
        dealt_before = []
        dealt_after = []
        burns_after = 0
        for k, op in enumerate(s.operations):
            kind = type(op).__name__
            if kind == 'BoardDealing':
                (dealt_before if k < self.allin_at else
                 dealt_after).extend(op.cards)
            elif kind == 'CardBurning' and k >= self.allin_at:
                burns_after += 1
        later = s.streets[self.allin_street + 1:]
        exp_after = r * b * sum(st.board_dealing_count for st in later)
        if len(dealt_after) != exp_after:
            ctx.violate(f'{len(dealt_after)} board cards dealt after the '
                        f'all-in, expected {exp_after} = {r} run-outs x {b} '
                        f'boards x remaining streets')
        exp_burn = r * sum(1 for st in later if st.card_burning_status)
        if burns_after != exp_burn:
            ctx.violate(f'{burns_after} burns after the all-in, expected '
                        f'{exp_burn}')
        allcards = [c for cards in boards for c in cards]
        if set(allcards) != set(dealt_before + dealt_after) or any(
                not c for c in allcards):
            ctx.violate('union of the boards differs from the cards the '
                        'BoardDealing operations dealt')
        # sharing: pre-all-in prefix of every starting board appears r times
        pres = Counter(tuple(cards[:pre]) for cards in boards)
        if pre:
            chunk = [tuple() for _ in range(b)]
            # reconstruct starting boards: per street, cards fill board 0
            # completely, then board 1, ...
            pos = 0
            rows = [[] for _ in range(b)]
            for st in s.streets[:self.allin_street + 1]:
                for k in range(b):
                    rows[k].extend(
                        dealt_before[pos:pos + st.board_dealing_count])
                    pos += st.board_dealing_count
            exp = Counter({tuple(row): r for row in rows})
            if pres != exp:
                ctx.violate(f'pre-all-in cards of the starting boards {rows} '
                            f'are not shared by exactly {r} final boards '
                            f'each: {boards}')
        posts = [c for cards in boards for c in cards[pre:]]
        if len(set(posts)) != len(posts) or set(posts) & set(dealt_before):
            ctx.violate(f'a card dealt after the all-in appears on two '
                        f'boards: {boards}')
        # pots evenly over the boards
        if sum(s.statuses) > 1 or True:
            pushes = [o for o in s.operations
                      if type(o).__name__ == 'ChipsPushing'
                      and o.board_index is not None]
            by_pot = {}
            for o in pushes:
                by_pot.setdefault(o.pot_index, Counter())[o.board_index] += \
                    o.total_amount
            # the parts add up to the pot (pot amounts from the independent
            # contribution model of C02; no rake in this class)
            if sum(s.statuses) > 1 and self.live_at_push is not None:
                from vflib.ref import payout
                contrib, antes = payout.contributions_from_log(s)
                model = payout.ref_pots(s, contrib, antes, self.live_at_push)
                for p, (amt, elig) in enumerate(model):
                    got = sum(by_pot.get(p, Counter()).values())
                    ctx.counters['pot_totals_compared'] += 1
                    if got != amt:
                        ctx.violate(
                            f'pot {p} holds {amt} but its shares over the '
                            f'{b * r} boards add up to {got}: '
                            f'{dict(by_pot.get(p, {}))} (model pots {model})')
            for p, c in by_pot.items():
                total = sum(c.values())
                ctx.counters['pots_split_over_boards'] += 1
                for j in range(b * r):
                    share = c.get(j, 0)
                    lo = total // (b * r) if isinstance(total, int) \
                        else total / (b * r)
                    if share < lo or (isinstance(total, int)
                                      and share > lo + (b * r - 1)):
                        ctx.violate(f'pot {p} ({total}) not divided evenly '
                                    f'over {b * r} boards: {dict(c)}')
                        break


def make_monitors():
    return [driver.Observer(0.1), driver.KnownCardsRule(),
            driver.BoardGrowthRule(), RunoutMonitor()]


def gen_kwargs(rng):
    return dict(
        games=gen.BOARD_GAMES, customs=CUSTOMS, p_custom=0.3,
        chip_types=('int', 'int', 'Fraction'), max_boards=3, rake_ok=False,
        strict_p=1.0, auto_styles=('any', 'typical', 'all', 'none'),
        modes=('CASH_GAME', 'CASH_GAME', 'TOURNAMENT'),
    )


def pol_tweak(pol, cfg, rng):
    if cfg['mode'] == 'CASH_GAME' and rng.random() < 0.15:
        pol['partial_show'] = True       # players table part of their hand
        pol['empty_show'] = True
        cfg['autos'] = [a for a in cfg['autos']
                        if a != 'HOLE_CARDS_SHOWING_OR_MUCKING']
    pol['policy'] = rng.choice(['allin', 'allin', 'aggressive', 'passive'])
    pol['runout_pref'] = rng.choice([1, 2, 2, 3, 3])


def nontrivial(ctx):
    return 'allin' in ctx.tags


def signature(ctx):
    return hist.default_sig(ctx) + str(ctx.data.get('prefs'))


def cfg_filter(cfg, rng):
    if rng.random() < 0.1:
        # Mode is a StrEnum: the plain string 'Tournament' / 'Cash-game' is
        # documented to be the same thing as the member
        cfg['mode_as_str'] = True
    return cfg


def run_shard(seed, shard, of, tier, deadline):
    return hist.run_history_shard(
        PROP, seed, shard, of, tier, deadline, cases=CASES,
        gen_kwargs=gen_kwargs, make_monitors=make_monitors,
        nontrivial=nontrivial, pol_tweak=pol_tweak, signature=signature,
        cfg_filter=cfg_filter)


def replay(payload):
    return hist.replay_history(payload, make_monitors, PROP)
