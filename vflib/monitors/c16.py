"""C16 -- PHH save/load round trip and replay (field, text and replay
equality; documented completion of omitted steps; errors on corrupt input)."""
from __future__ import annotations

import datetime
from decimal import Decimal
import random
import time
import warnings

from vflib import load, gen, driver, hist
from vflib.run import Shard, shard_seed, sig
import pokerkit
from pokerkit import HandHistory, Card
import pokerkit.notation as pk_notation

PROP = 'C16'
RULE = (
    'seeded random hands (terminal and cut short) of the 11 PHH variants, '
    'int and Decimal chips, trimmed/untrimmed antes incl. stacks below the '
    'ante, any automation subset and dealing style in the original, are '
    'written with HandHistory.from_game_state + dumps() (with random '
    'optional and underscore-prefixed user fields: ints, bools, decimals, '
    'times, lists, nested tables, strings with quotes/spaces), read back '
    'with loads(), dumped again and replayed. Checked: field-wise equality '
    'of the loaded history; identical text on the second dump; the replay\'s '
    'player-visible operations (kind, player, amount, cards; dealing '
    'compared per player) and final stacks/payoffs equal the original hand; '
    'one cash-game hand in four is anonymised (down cards dealt as ??, '
    'some never revealed and "shown" face down at the showdown); '
    'the commentary strings of the original log (incl. quotes, # and runs '
    'of spaces) are, in order, the commentary of the replayed operations; '
    'hold\'em-family histories whose hole-card lines are replaced by ???? '
    '(sm lines kept) replay to the same stacks; corrupted histories '
    '(unknown verb, illegal amount, action of a folded player, extra '
    'trailing action, already dealt card) make the iterator raise or apply '
    'every line -- a normal return with fewer applied lines is the silent '
    'truncation the property forbids. Non-trivial = a history with >= 4 '
    'action lines; distinct by (variant, players, chip type, action-kind '
    'sequence).')
ASSUMPTIONS = [
    'single run-out, one board, no rake (what the format can express)',
    'strings that TOML literal syntax cannot carry (both quote kinds with '
    'newlines, control characters) are outside the inputs',
]
CASES = {'quick': 10000, 'thorough': 120000}
TIME = {'quick': 75, 'thorough': 560}
MIN_NONTRIVIAL = {'quick': 1000, 'thorough': 10000}
REQUIRED = ('round_trips', 'replays_compared', 'partial_histories',
            'decimal_histories', 'user_field_histories',
            'unknown_hole_replays', 'corruptions_checked',
            'corruptions_raised', 'trimmed_short_stack_histories',
            'commentary_histories', 'commentary_sequences_compared',
            'commentary_with_whitespace_runs',
            'histories_with_facedown_unknown_shows',
            'ten_plus_player_histories', 'long_decimal_histories',
            'exponent_decimal_histories')

PHH_GAMES = tuple(g for g in gen.ALL_GAMES if g != 'NoLimitRoyalHoldem')
HOLDEM_FAMILY = ('FixedLimitTexasHoldem', 'NoLimitTexasHoldem',
                 'NoLimitShortDeckHoldem', 'PotLimitOmahaHoldem',
                 'FixedLimitOmahaHoldemHighLowSplitEightOrBetter')
VISIBLE = ('HoleDealing', 'BoardDealing', 'StandingPatOrDiscarding',
           'BringInPosting', 'Folding', 'CheckingOrCalling',
           'CompletionBettingOrRaisingTo', 'HoleCardsShowingOrMucking')


def visible_ops(state, limit=None):
    """Player-visible content of a log: dealing merged per player/street."""
    out = []
    ops = state.operations if limit is None else state.operations[:limit]
    for op in ops:
        k = type(op).__name__
        if k not in VISIBLE:
            continue
        if k == 'HoleDealing':
            if out and out[-1][0] == 'deal' :
                out[-1][1].setdefault(op.player_index, []).extend(op.cards)
            else:
                out.append(['deal', {op.player_index: list(op.cards)}, []])
        elif k == 'BoardDealing':
            if out and out[-1][0] == 'deal':
                out[-1][2].extend(op.cards)
            else:
                out.append(['deal', {}, list(op.cards)])
        elif k == 'StandingPatOrDiscarding':
            out.append(['sd', op.player_index, tuple(op.cards)])
        elif k == 'HoleCardsShowingOrMucking':
            out.append(['sm', op.player_index, tuple(op.hole_cards)])
        elif k == 'CompletionBettingOrRaisingTo':
            # an amount that is not an int must not come back as one (the
            # hand would be replayed in integer chips: other odd-chip splits)
            out.append(['cbr', op.player_index, op.amount,
                        'int' if isinstance(op.amount, int) else 'non-int'])
        elif k == 'CheckingOrCalling':
            out.append(['cc', op.player_index, op.amount])
        else:
            out.append([k, op.player_index])
    return out


def gen_meta(rng):
    meta = {}
    if rng.random() < 0.5:
        meta['author'] = rng.choice(['Juho Kim', "O'Neil", 'a b  c'])
    if rng.random() < 0.4:
        meta['event'] = "2023 WSOP Event #43: $50,000 Poker Players' Champ"
    if rng.random() < 0.3:
        meta['hand'] = rng.choice([7, 123456, 'H-77'])
    if rng.random() < 0.3:
        meta['time'] = datetime.time(rng.randrange(24), rng.randrange(60),
                                     rng.randrange(60))
        meta['time_zone'] = 'America/Toronto'
        meta['day'], meta['month'], meta['year'] = 2, 7, 2023
    if rng.random() < 0.3:
        meta['currency'] = 'USD'
        meta['currency_symbol'] = '$'
    if rng.random() < 0.3:
        meta['level'] = rng.randint(1, 30)
        meta['table'] = rng.choice([3, 'Blue'])
    uf = {}
    if rng.random() < 0.6:
        for _ in range(rng.randint(1, 4)):
            key = rng.choice(['_note', '_x', '_my field', '_k9', '_a_b'])
            uf[key] = rng.choice([
                5, -3, True, False, Decimal('2.50'), 'plain',
                "it's quoted", 'with "double" quotes', [1, 2, 3],
                ['a', 'b'], {'a': 1, 'b': [1, 2]}, {'nested key': 'v'},
                datetime.time(1, 2, 3), [], 0,
            ])
    return meta, uf


def player_names(rng, n):
    pool = ['Alice', 'Bob', "D'Artagnan", 'Phil Ivey', 'p_3', 'Hellmuth Jr.',
            'x', 'Tom "durrrr" Dwan', 'Zoe']
    return rng.sample(pool, n) if n <= len(pool) else None


APPLIED = [0]
_ORIG_PARSE_ACTION = pk_notation.parse_action


def _counting_parse_action(state, action, parse_value=pk_notation.parse_value):
    r = _ORIG_PARSE_ACTION(state, action, parse_value)
    APPLIED[0] += 1
    return r


pk_notation.parse_action = _counting_parse_action


def replay_hh(hh):
    """Iterate the history; returns (final state, applied count) or raises."""
    APPLIED[0] = 0
    last = None
    for st in hh:
        last = st
    return last, APPLIED[0]


def corruptions(rng, hh, state):
    """Yield (kind, actions list)."""
    acts = list(hh.actions)
    n = len(state.starting_stacks)
    if not acts:
        return
    k = rng.randrange(len(acts))
    yield 'unknown-verb', acts[:k] + ['p1 xyz'] + acts[k:]
    yield 'bad-player-label', acts[:k] + ['q1 cc'] + acts[k:]
    cbr = [i for i, a in enumerate(acts) if ' cbr ' in a]
    if cbr:
        i = rng.choice(cbr)
        w = acts[i].split()
        yield 'amount-too-large', acts[:i] + [
            f'{w[0]} cbr 99999999'] + acts[i + 1:]
        yield 'amount-zero', acts[:i] + [f'{w[0]} cbr 0'] + acts[i + 1:]
    folds = [i for i, a in enumerate(acts) if a.endswith(' f')]
    if folds:
        i = rng.choice(folds)
        w = acts[i].split()
        yield 'folded-player-acts', acts[:i + 1] + [
            f'{w[0]} cc'] + acts[i + 1:] if False else \
            acts + [f'{w[0]} cbr 5']
    if not state.status:
        yield 'trailing-action', acts + ['p1 cc']
        yield 'trailing-deal', acts + ['d db AsKsQs']
    deals = [i for i, a in enumerate(acts) if a.startswith('d db')]
    if deals:
        i = deals[-1]
        first = acts[deals[0]].split()[2][:2]
        w = acts[i].split()
        yield 'card-dealt-twice', acts[:i] + [
            f'd db {first}{w[2][2:]}'] + acts[i + 1:]


def check_case(res, rng, cfg, pol):
    cut = rng.random() < 0.25
    ctx = driver.play_hand(cfg, pol, [], PROP,
                           max_ops=rng.randint(1, 25) if cut else None)
    if ctx.state is None or 'ctor_exc' in ctx.data or 'op_exc' in ctx.data:
        res.counters['aborted'] += 1
        return
    s = ctx.state
    partial = s.status
    game = gen.build_game(cfg)
    meta, uf = gen_meta(rng)
    names = player_names(rng, cfg['n']) if rng.random() < 0.5 else None
    if names:
        meta['players'] = names
    payload = {'cfg': hist.enc_cfg(cfg), 'script': ctx.script, 'pol': pol,
               'meta': repr(meta), 'uf': repr(uf)}
    res.evaluations += 1
    what = gen.describe(cfg)
    try:
        hh = HandHistory.from_game_state(game, s, **meta, **uf)
        text = hh.dumps()
        hh2 = HandHistory.loads(text)
        text2 = hh2.dumps()
    except Exception as exc:   # noqa: BLE001
        res.violation(f'write/read raised {type(exc).__name__}: {exc} || '
                      f'{what}', payload)
        return
    res.counters['round_trips'] += 1
    if uf:
        res.counters['user_field_histories'] += 1
    if cfg['chip_type'] == 'Decimal':
        res.counters['decimal_histories'] += 1
    if cfg['n'] >= 10:
        res.counters['ten_plus_player_histories'] += 1
    if cfg.get('long_decimals'):
        res.counters['long_decimal_histories'] += 1
    if cfg.get('exponent_decimals'):
        res.counters['exponent_decimal_histories'] += 1
    if any(' # ' in a for a in hh.actions):
        res.counters['commentary_histories'] += 1
    if any(a.split()[1:2] == ['sm'] and '??' in a.split('#')[0]
           for a in hh.actions):
        res.counters['histories_with_facedown_unknown_shows'] += 1
    if text2 != text:
        a, b = text.splitlines(), text2.splitlines()
        d = [(x, y) for x, y in zip(a, b) if x != y][:2]
        res.violation(f'second dump differs from the first: {d or "length"}'
                      f' || {what}', payload)
        return
    import dataclasses
    for f in dataclasses.fields(HandHistory):
        if f.name in ('divmod', 'rake', 'parse_value', 'automations'):
            continue
        a, b = getattr(hh, f.name), getattr(hh2, f.name)
        if a != b:
            res.violation(f'field {f.name} changed in the round trip: '
                          f'{a!r} -> {b!r} || {what}', payload)
            return
    if hh2.ante_trimming_status != cfg['gargs'][0]:
        res.violation(f'ante_trimming_status {hh2.ante_trimming_status} != '
                      f'game {cfg["gargs"][0]} || {what}', payload)
    # replay
    try:
        with warnings.catch_warnings():
            warnings.simplefilter('ignore')
            final, applied = replay_hh(hh2)
    except Exception as exc:   # noqa: BLE001
        res.violation(f'replay of the loaded history raised '
                      f'{type(exc).__name__}: {exc} || {what} || actions '
                      f'{hh2.actions[:40]}', payload)
        return
    res.counters['replays_compared'] += 1
    if applied != len(hh2.actions):
        res.violation(f'replay applied {applied} of {len(hh2.actions)} '
                      f'action lines without an error || {what}', payload)
        return
    vo = visible_ops(s)
    vr = visible_ops(final)
    # commentary strings: every comment of the original log, in order, is
    # the commentary of some replayed operation (comments on steps the
    # writer omits or merges become stand-alone '# ...' lines)
    co = [o.commentary for o in s.operations if o.commentary is not None]
    cr = [o.commentary for o in final.operations
          if o.commentary is not None]
    if co:
        res.counters['commentary_sequences_compared'] += 1
        if any('  ' in c for c in co):
            res.counters['commentary_with_whitespace_runs'] += 1
    if cr[:len(co)] != co if partial else cr != co:
        k = next((i for i, (x, y) in enumerate(zip(co, cr)) if x != y),
                 min(len(co), len(cr)))
        res.violation(
            f'commentary differs after the round trip at #{k}: original '
            f'{co[k:k + 2]!r}, replay {cr[k:k + 2]!r} || {what}', payload)
        return
    if partial:
        res.counters['partial_histories'] += 1
        if vr[:len(vo)] != vo and not (
                vo and vr[:len(vo) - 1] == vo[:-1] and vo[-1][0] == 'deal'):
            k = next((i for i, (x, y) in enumerate(zip(vo, vr)) if x != y),
                     min(len(vo), len(vr)))
            res.violation(
                f'partial history: replayed operations differ at #{k}: '
                f'original {vo[k:k + 2]}, replay {vr[k:k + 2]} || {what}',
                payload)
            return
    else:
        if vr != vo:
            k = next((i for i, (x, y) in enumerate(zip(vo, vr)) if x != y),
                     min(len(vo), len(vr)))
            res.violation(
                f'replayed operations differ at #{k}: original '
                f'{vo[k:k + 2]}, replay {vr[k:k + 2]} || {what}', payload)
            return
        if list(final.stacks) != list(s.stacks) or \
                list(final.payoffs) != list(s.payoffs) or final.status:
            res.violation(
                f'replay ends with stacks {final.stacks} payoffs '
                f'{final.payoffs} status {final.status}; the original hand '
                f'ended with {s.stacks} / {s.payoffs} || {what}', payload)
            return
        short = any(st < a for st, a in zip(
            s.starting_stacks, [s.get_effective_ante(i) if False else 0
                                for i in s.player_indices]))
        if cfg['gargs'][0] and any(
                s.starting_stacks[i] <= max(s.antes)
                for i in s.player_indices) and any(s.antes):
            res.counters['trimmed_short_stack_histories'] += 1
    if len(hh.actions) >= 4:
        seqsig = ' '.join(a.split()[1] if not a.startswith('d ')
                          else a.split()[1] for a in hh.actions)
        res.sigs.add(sig(hh.variant, cfg['n'], cfg['chip_type'], seqsig))
        res.add_sample({'config': what, 'text': text[:600]})
    # unknown hole cards, sm lines kept (hold'em family, terminal)
    if not partial and cfg['game'] in HOLDEM_FAMILY and rng.random() < 0.5:
        acts = []
        for a in hh2.actions:
            w = a.split()
            if w[:2] == ['d', 'dh']:
                acts.append(f'd dh {w[2]} ' + '?' * len(w[3]))
            else:
                acts.append(a)
        showers = {a.split()[0] for a in acts if ' sm ' in a
                   and len(a.split()) > 2}
        liveplayers = {f'p{i + 1}' for i in s.player_indices
                       if any(type(o).__name__ == 'HoleCardsShowingOrMucking'
                              and o.player_index == i and o.hole_cards
                              for o in s.operations)}
        try:
            hh3 = HandHistory.loads(text)
            hh3.actions = acts
            with warnings.catch_warnings():
                warnings.simplefilter('ignore')
                final3, applied3 = replay_hh(hh3)
            res.counters['unknown_hole_replays'] += 1
            if list(final3.stacks) != list(s.stacks):
                res.violation(
                    f'history with unknown hole cards (sm lines kept) '
                    f'replays to stacks {final3.stacks}, original '
                    f'{s.stacks} || {what} || {acts}', payload)
        except Exception as exc:   # noqa: BLE001
            res.violation(f'history with unknown hole cards raised '
                          f'{type(exc).__name__}: {exc} || {what} || {acts}',
                          payload)
    # corruptions
    if rng.random() < 0.4:
        for kind, acts in corruptions(rng, hh2, s):
            hh4 = HandHistory.loads(text)
            hh4.actions = acts
            res.counters['corruptions_checked'] += 1
            try:
                with warnings.catch_warnings():
                    warnings.simplefilter('error')
                    final4, applied4 = replay_hh(hh4)
            except Exception:   # noqa: BLE001
                res.counters['corruptions_raised'] += 1
                continue
            if applied4 < len(acts):
                res.violation(
                    f'corrupted history ({kind}) was replayed without any '
                    f'error although only {applied4} of {len(acts)} action '
                    f'lines could be applied || {what} || {acts[-6:]}',
                    dict(payload, corruption=kind, actions=acts))
            else:
                res.counters[f'corruption_applied_fully:{kind}'] += 1


def gen_cfg(rng):
    chip = rng.choice(['int', 'int', 'Decimal'])
    cfg = gen.gen_config(
        rng, games=PHH_GAMES, customs=(), p_custom=0, chip_types=(chip,),
        max_boards=1, rake_ok=False, divmod_ok=False, strict_p=1.0,
        auto_styles=('any', 'typical', 'none', 'all'))
    if cfg['mode'] == 'CASH_GAME' and \
            'RUNOUT_COUNT_SELECTION' not in cfg['autos']:
        cfg['autos'].append('RUNOUT_COUNT_SELECTION')
    if chip == 'Decimal' and rng.random() < 0.1:
        # round amounts in exponent form (Decimal('2E+1'), what normalize()
        # and quantize() produce): still Decimals after a save and load
        def ex(v):
            if isinstance(v, bool) or v is None:
                return v
            if isinstance(v, (int, Decimal)):
                return (Decimal(v) * Decimal('1E+1')).normalize()
            if isinstance(v, (list, tuple)):
                return type(v)(ex(x) for x in v)
            if isinstance(v, dict):
                return {k: ex(x) for k, x in v.items()}
            return v
        cfg['gargs'] = [cfg['gargs'][0]] + [ex(x) for x in cfg['gargs'][1:]]
        cfg['stacks'] = ex(cfg['stacks'])
        cfg['exponent_decimals'] = True
    elif chip == 'Decimal' and rng.random() < 0.12:
        # many significant digits (an 18-decimal denomination): the text
        # must carry every digit, a detour through a double does not
        f = Decimal('1.000000000000000003')

        def sc(v):
            if isinstance(v, bool) or v is None:
                return v
            if isinstance(v, (int, Decimal)):
                return v * f
            if isinstance(v, (list, tuple)):
                return type(v)(sc(x) for x in v)
            if isinstance(v, dict):
                return {k: sc(x) for k, x in v.items()}
            return v
        cfg['gargs'] = [cfg['gargs'][0]] + [sc(x) for x in cfg['gargs'][1:]]
        cfg['stacks'] = sc(cfg['stacks'])
        cfg['long_decimals'] = True
    if cfg['game'] in ('NoLimitTexasHoldem', 'FixedLimitTexasHoldem',
                       'NoLimitShortDeckHoldem') and rng.random() < 0.08:
        # big tables (two-digit player labels: p10, p11, ...)
        n = rng.randint(10, 12)
        unit, bb = cfg['unit'], cfg['bb']
        cfg['n'] = n
        cfg['stacks'] = [rng.randint(3, 60) * bb * unit for _ in range(n)]
    return cfg


def run_shard(seed, shard, of, tier, deadline):
    res = Shard()
    rng = random.Random(shard_seed(seed, PROP, shard))
    n = max(1, CASES[tier] // of)
    for k in range(n):
        if time.time() > deadline:
            res.truncated = True
            break
        cfg = gen_cfg(rng)
        pol = driver.gen_policy(rng)
        pol['partial_show'] = False
        pol['commentary'] = rng.random() < 0.4
        if pol['deal'] == 'unknown':
            pol['deal'] = 'default'
        if cfg['mode'] == 'CASH_GAME' and rng.random() < 0.25 and \
                'HOLE_DEALING' not in cfg['autos']:
            # anonymised hands: down cards dealt as ??, some of them never
            # revealed ("shown" face down at the showdown)
            pol['deal'] = 'unknown'
            cfg['autos'] = [a for a in cfg['autos']
                            if a != 'HOLE_CARDS_SHOWING_OR_MUCKING']
            pol['keep_unknown'] = rng.choice([0.5, 1.0])
            pol['policy'] = rng.choice(['passive', 'passive', 'uniform'])
            res.counters['unknown_card_hands'] += 1
        if cfg['chip_type'] == 'int' and rng.random() < 0.15:
            # mixed chips: integer stacks, some raise amounts given as whole
            # Decimals (the hand turns Decimal at that raise)
            pol['amount_cast'] = 'Decimal'
            res.counters['mixed_int_decimal_hands'] += 1
        check_case(res, rng, cfg, pol)
    return res


def replay(payload):
    """./vf replay entry point."""
    _orig = replay_hh
    res = Shard()
    cfg = hist.dec_cfg(payload['cfg'])
    ctx = driver.replay_script(cfg, payload['script'], [], PROP)
    s = ctx.state
    game = gen.build_game(cfg)
    hh = HandHistory.from_game_state(game, s)
    text = hh.dumps()
    hh2 = HandHistory.loads(text)
    out = []
    if hh2.dumps() != text:
        out.append({'what': 'second dump differs', 'kf': None})
    acts = payload.get('actions')
    if acts is not None:
        hh2.actions = acts
    try:
        final, applied = _orig(hh2)
        if applied != len(hh2.actions):
            out.append({'what': f'applied {applied} of '
                        f'{len(hh2.actions)} lines silently', 'kf': None})
        elif acts is None and not s.status and (
                list(final.stacks) != list(s.stacks)):
            out.append({'what': f'replay stacks {final.stacks} != original '
                        f'{s.stacks}', 'kf': None})
        elif acts is None and visible_ops(final)[:len(visible_ops(s))] != \
                visible_ops(s):
            out.append({'what': 'replayed operations differ', 'kf': None})
    except Exception as exc:   # noqa: BLE001
        if acts is None:
            out.append({'what': f'replay raised {type(exc).__name__}: '
                        f'{exc}', 'kf': None})
    return out
