"""C05 -- the hand made from hole and board cards is the best one the game
allows (differential against brute force under the composition rule)."""
from __future__ import annotations

from itertools import combinations
import random
import time

from vflib import load  # noqa: F401
from vflib.run import Shard, shard_seed, sig
from vflib.ref import handrank as hr
from vflib.monitors.c04 import DECKS, cards_of, text_of
import pokerkit
from pokerkit import Card, Deck
from pokerkit import hands as pk_hands

PROP = 'C05'
RULE = (
    'for each of the 11 hand classes, seeded random and biased (hole, board) '
    'pairs from the class\'s deck -- 0-7 hole and 0-5 board cards; paired '
    'boards, four-flushes, low-heavy boards, boards with no possible low; '
    'hole cards passed as list, tuple, string and one-shot iterator -- are '
    'given to cls.from_game and cls.from_game_or_none; the result must have '
    'the maximum reference strength over all combinations that are legal '
    'under the composition rule (any five; exactly two hole + three board '
    'for Omaha high/low; both hole + three board for Greek; largest '
    'rainbow/unpaired subset then lowest for badugi; best single card for '
    'Kuhn), be a legal selection of the given cards, and be None / ValueError '
    'exactly when no legal combination exists; one input in five is '
    'followed by the same cards split differently between hand and board '
    'and by the same input given to sibling classes (results must not '
    'depend on earlier evaluations). In-state: State.get_hand and '
    'get_up_hand agree with the oracle on sampled played states (thorough: '
    'also all C(47,3)/C(50,5)-strided boards for fixed holes). '
    'distinct_nontrivial = distinct (class, #hole, #board, reference '
    'strength, None?) among inputs.')
ASSUMPTIONS = [
    'the reference evaluator of C04 (vflib.ref.handrank) decides strength',
    'Greek hold\'em is exercised with exactly two hole cards (its rule)',
]
CASES = {'quick': 110000, 'thorough': 2000000}
TIME = {'quick': 70, 'thorough': 560}
MIN_NONTRIVIAL = {'quick': 3000, 'thorough': 12000}
REQUIRED = ('inputs', 'no_hand_cases', 'omaha_inputs', 'greek_inputs',
            'badugi_inputs', 'low_inputs', 'iterator_inputs',
            'state_hands_checked', 'resplit_inputs', 'sibling_class_inputs',
            'mixed_game_sequences', 'multi_board_views_followed')

LOWISH = 'A2345678'


def _short_tuple_lookups():
    from pokerkit import state as _st
    from pokerkit import lookups as _lk
    out = []
    for name in ('_HighHandOpeningLookup', '_LowHandOpeningLookup'):
        cls = getattr(_st, name, None)
        if cls is not None:
            out.append(cls())
    for name in ('StandardLookup', 'RegularLookup'):
        out.append(getattr(_lk, name)())
    return out


LOOKUPS_FOR_SHORT_TUPLES = _short_tuple_lookups()
# classes that share a deck/lookup/parent with another class: the same input
# is also given to them right after (a cache keyed too coarsely would leak)
SIBLINGS = {
    'BadugiHand': ('StandardBadugiHand',),
    'StandardBadugiHand': ('BadugiHand',),
    'OmahaHoldemHand': ('OmahaEightOrBetterLowHand', 'GreekHoldemHand',
                        'StandardHighHand'),
    'OmahaEightOrBetterLowHand': ('OmahaHoldemHand', 'EightOrBetterLowHand'),
    'GreekHoldemHand': ('OmahaHoldemHand', 'StandardHighHand'),
    'StandardHighHand': ('StandardLowHand', 'ShortDeckHoldemHand',
                         'RegularLowHand'),
    'StandardLowHand': ('StandardHighHand', 'RegularLowHand'),
    'RegularLowHand': ('EightOrBetterLowHand', 'StandardLowHand'),
    'EightOrBetterLowHand': ('RegularLowHand', 'OmahaEightOrBetterLowHand'),
    'ShortDeckHoldemHand': ('StandardHighHand',),
}


def gen_input(rng, clsname, kind, rule):
    deck = list(DECKS[kind])
    if rule == 'omaha':
        nh = rng.choice([0, 1, 2, 2, 3, 4, 4, 4, 5, 6])
        nb = rng.choice([0, 2, 3, 3, 4, 5, 5, 5])
    elif rule == 'greek':
        nh = rng.choice([2, 2, 2, 2, 2, 1, 0])
        nb = rng.choice([0, 2, 3, 4, 5, 5])
    elif rule == 'badugi':
        nh = rng.choice([0, 1, 2, 3, 4, 4, 4, 5, 6, 7])
        nb = rng.choice([0, 0, 0, 1, 2])
    elif rule == 'kuhn':
        nh = rng.choice([0, 1, 1, 2])
        nb = rng.choice([0, 0, 1])
    else:
        nh = rng.choice([0, 1, 2, 2, 3, 5, 5, 7, 7])
        nb = rng.choice([0, 0, 3, 4, 5, 5])
    total = min(nh + nb, len(deck))
    bias = rng.random()
    if bias < 0.25 and kind != 'kuhn':
        # few ranks / one suit heavy: pairs, flushes, ties
        ranks = set(rng.sample(sorted({c.rank.value for c in deck}),
                               rng.choice([2, 3, 4])))
        suit = rng.choice('cdhs')
        pool = [c for c in deck if c.rank.value in ranks
                or (c.suit.value == suit and rng.random() < 0.5)]
        if len(pool) < total:
            pool = deck
    elif bias < 0.45 and kind in ('eightorbetter', 'regular', 'badugi',
                                  'stdbadugi'):
        pool = [c for c in deck if c.rank.value in LOWISH
                or rng.random() < 0.15]
        if len(pool) < total:
            pool = deck
    elif bias < 0.55 and kind == 'eightorbetter':
        pool = [c for c in deck if c.rank.value not in LOWISH[:6]
                or rng.random() < 0.2]
        if len(pool) < total:
            pool = deck
    else:
        pool = deck
    cards = rng.sample(pool, total)
    nh = min(nh, total)
    return tuple(cards[:nh]), tuple(cards[nh:])


def forms(rng, hole):
    k = rng.random()
    if k < 0.3:
        return list(hole), 'list'
    if k < 0.5:
        return tuple(hole), 'tuple'
    if k < 0.7:
        return text_of(hole), 'str'
    if k < 0.85:
        return iter(hole), 'iterator'
    return filter(None, list(hole)), 'filter'


def check_input(res, rng, clsname, hole, board, form=None):
    kind, low, rule = hr.CLASSES[clsname]
    cls = getattr(pk_hands, clsname)
    best = hr.best_strength(clsname, hole, board)
    if form is None:
        h_arg, hform = forms(rng, hole)
        b_arg, bform = forms(rng, board)
    else:
        h_arg, hform = form(hole)
        b_arg, bform = form(board)
    if 'iter' in hform or 'filter' in hform or 'iter' in bform \
            or 'filter' in bform:
        res.counters['iterator_inputs'] += 1
    payload = {'cls': clsname, 'hole': text_of(hole),
               'board': text_of(board), 'forms': [hform, bform]}
    res.counters['inputs'] += 1
    try:
        hand = cls.from_game(h_arg, b_arg)
        exc = None
    except ValueError as e:
        hand, exc = None, e
    except Exception as e:   # noqa: BLE001
        res.violation(
            f'{clsname}.from_game({text_of(hole)!r}, {text_of(board)!r}) '
            f'[{hform},{bform}] raised {type(e).__name__}: {e}', payload)
        return
    none2 = cls.from_game_or_none(list(hole), list(board))
    if (none2 is None) != (best is None):
        res.violation(
            f'{clsname}.from_game_or_none({text_of(hole)!r}, '
            f'{text_of(board)!r}) = {none2!r}, reference best '
            f'{"exists" if best is not None else "does not exist"}',
            payload)
    if best is None:
        res.counters['no_hand_cases'] += 1
        if hand is not None:
            res.violation(
                f'{clsname}.from_game({text_of(hole)!r}, '
                f'{text_of(board)!r}) = {hand!r} although no legal '
                f'combination exists', payload)
        res.sigs.add(sig(clsname, len(hole), len(board), None))
        return
    if hand is None:
        res.violation(
            f'{clsname}.from_game({text_of(hole)!r}, {text_of(board)!r}) '
            f'[{hform},{bform}] raised ValueError ({exc}) although a legal '
            f'hand of strength {best} exists', payload)
        return
    got = hr.strength(kind, low, hand.cards)
    if got != best:
        res.violation(
            f'{clsname}.from_game({text_of(hole)!r}, {text_of(board)!r}) '
            f'[{hform},{bform}] = {hand!r} (strength {got}), best legal '
            f'strength is {best}', payload)
    if not hr.obeys_rule(clsname, hand.cards, hole, board):
        res.violation(
            f'{clsname}.from_game({text_of(hole)!r}, {text_of(board)!r}) = '
            f'{hand!r} is not a legal selection under the {rule} rule',
            payload)
    if type(hand) is not cls:
        res.violation(
            f'{clsname}.from_game returned a {type(hand).__name__}', payload)
    if none2 is not None:
        got2 = hr.strength(kind, low, none2.cards)
        if none2 != hand or got2 != best or not hr.obeys_rule(
                clsname, none2.cards, hole, board):
            res.violation(
                f'{clsname}.from_game_or_none({text_of(hole)!r}, '
                f'{text_of(board)!r}) = {none2!r} (strength {got2}), '
                f'from_game gives {hand!r}, best legal strength {best}',
                payload)
    res.sigs.add(sig(clsname, len(hole), len(board), best))


def check_states(res, rng, count):
    """State.get_hand / get_up_hand against the oracle on played states."""
    from vflib import gen, driver
    for _ in range(count):
        cfg = gen.gen_config(
            rng, customs=('greek', 'holdem8', 'plo8', 'courchevel',
                          'badugi1', 'kuhn', 'stud5', 'razzdraw',
                          'boarddraw', 'boarddraw', 'random'),
            p_custom=0.4, max_boards=2, strict_p=1.0,
            auto_styles=('typical',), hostile_chips=False)
        pol = driver.gen_policy(rng)
        pol['policy'] = rng.choice(['passive', 'passive', 'drawheavy'])
        runouts = rng.random() < 0.3
        if runouts:
            # all-in run-outs dealt by hand: the boards are looked at while
            # one run-out is on the table and the next is not
            cfg['mode'] = 'CASH_GAME'
            cfg['autos'] = [a for a in cfg['autos'] if a not in (
                'BOARD_DEALING', 'CARD_BURNING', 'RUNOUT_COUNT_SELECTION')]
            pol['policy'] = 'allin'
            pol['runout_pref'] = rng.choice([2, 2, 3])
            pol['deal'] = 'default'

        class Probe(driver.Monitor):
            boards = None

            def on_decision(self, ctx, s, avail):
                # a card dealt onto a board stays on that board, in place:
                # every board only ever grows at its end (until the number
                # of boards changes when run-outs are agreed)
                now = [tuple(map(repr, s.get_board_cards(b)))
                       for b in s.board_indices]
                prev, self.boards = self.boards, now
                if prev is not None and len(prev) == len(now):
                    res.counters['board_views_followed'] += 1
                    if len(now) > 1 and any(now):
                        res.counters['multi_board_views_followed'] += 1
                    for b, (x, y) in enumerate(zip(prev, now)):
                        if y[:len(x)] != x:
                            ctx.violate(
                                f'get_board_cards({b}) was {x} and is now '
                                f'{y} (boards {s.board_cards}, '
                                f'{s.board_count} boards): a card seen on a '
                                f'board left it or moved')
                            return
                if (rng.random() > 0.25 and not (runouts and s.all_in_status)) \
                        or s.street_index is None:
                    return
                for i in s.player_indices:
                    for b in s.board_indices:
                        for t, ht in enumerate(s.hand_types):
                            name = ht.__name__
                            board = tuple(s.get_board_cards(b))
                            got = s.get_hand(i, b, t)
                            hole = [c for c in s.hole_cards[i] if c]
                            if name == 'GreekHoldemHand' and len(hole) != 2:
                                continue
                            exp = hr.best_strength(name, hole, board) \
                                if s.statuses[i] else None
                            kind, low, _ = hr.CLASSES[name]
                            gs = None if got is None else hr.strength(
                                kind, low, got.cards)
                            res.counters['state_hands_checked'] += 1
                            if gs != exp:
                                ctx.violate(
                                    f'get_hand({i},{b},{t}) = {got!r} '
                                    f'(strength {gs}), oracle {exp} for '
                                    f'hole {hole} board {board} ({name})')
                            up = [c for c, u in zip(
                                s.hole_cards[i], s.hole_card_statuses[i])
                                if u]
                            gotu = s.get_up_hand(i, b, t)
                            if not s.hole_cards[i] and board:
                                res.counters['cardless_hands_on_a_board'] \
                                    += 1
                            if name == 'GreekHoldemHand' and len(up) != 2:
                                continue
                            expu = hr.best_strength(name, up, board) \
                                if s.statuses[i] else None
                            gu = None if gotu is None else hr.strength(
                                kind, low, gotu.cards)
                            if gu != expu:
                                ctx.violate(
                                    f'get_up_hand({i},{b},{t}) = {gotu!r} '
                                    f'(strength {gu}), oracle {expu} for up '
                                    f'cards {up} board {board} ({name})')
        ctx = driver.play_hand(cfg, pol, [Probe()], PROP)
        for v in ctx.violations[:2]:
            from vflib import hist
            res.violation(v['what'] + ' || ' + gen.describe(cfg),
                          {'state': hist.payload_of(ctx)})


def run_shard(seed, shard, of, tier, deadline):
    res = Shard()
    rng = random.Random(shard_seed(seed, PROP, shard))
    n = CASES[tier] // of
    names = list(hr.CLASSES)
    weights = [3 if hr.CLASSES[c][2] in ('omaha', 'greek', 'badugi') else 1
               for c in names]
    nstates = max(3, n // 400)
    check_states(res, rng, nstates)
    for k in range(n):
        if k % 256 == 0 and time.time() > deadline:
            res.truncated = True
            break
        clsname = rng.choices(names, weights)[0]
        kind, low, rule = hr.CLASSES[clsname]
        hole, board = gen_input(rng, clsname, kind, rule)
        if rule == 'omaha' and len(hole) * len(board) and \
                len(hole) + len(board) > 10:
            board = board[:4]
        if rule == 'badugi' and rng.random() < 0.25:
            # mixed-game session: the stud opening lookups (and the plain
            # lookups) are asked about the same short card tuples first --
            # a lookup-level memo shared between lookups would leak
            from itertools import combinations as _comb
            from pokerkit.state import State as _State
            from pokerkit import lookups as _lk
            allc = tuple(hole) + tuple(board)
            for lk in LOOKUPS_FOR_SHORT_TUPLES:
                for kk in (2, 3, 4):
                    for sub in _comb(allc, kk):
                        try:
                            lk.get_entry_or_none(sub)
                        except Exception:    # noqa: BLE001
                            pass
            res.counters['mixed_game_sequences'] += 1
        check_input(res, rng, clsname, hole, board)
        if rng.random() < 0.2 and hole and board:
            # the same cards split differently between hand and board (and,
            # below, given to a sibling class): results may depend on the
            # split and the class only, never on what was evaluated before
            cards = list(hole) + list(board)
            for _ in range(2):
                rng.shuffle(cards)
                h2, b2 = cards[:len(hole)], cards[len(hole):]
                check_input(res, rng, clsname, h2, b2)
                res.counters['resplit_inputs'] += 1
            for other in SIBLINGS.get(clsname, ()):
                if other == 'GreekHoldemHand' and len(hole) > 2:
                    continue     # Greek hold'em is a two-hole-card game
                if all(c in DECKS[hr.CLASSES[other][0]] for c in cards):
                    check_input(res, rng, other, hole, board)
                    res.counters['sibling_class_inputs'] += 1
        res.counters[{'omaha': 'omaha_inputs', 'greek': 'greek_inputs',
                      'badugi': 'badugi_inputs'}.get(rule,
                                                      'any5_inputs')] += 1
        if low:
            res.counters['low_inputs'] += 1
        if k < 2:
            res.add_sample({'class': clsname, 'hole': text_of(hole),
                            'board': text_of(board)}, limit=4)
    if tier == 'thorough':
        # all flops + strided 5-card boards for a few fixed holes
        for clsname, hole_t in (('OmahaHoldemHand', 'AsKsQhJh'),
                                ('OmahaEightOrBetterLowHand', 'Ac2d3hKs'),
                                ('GreekHoldemHand', 'AsKs'),
                                ('StandardHighHand', '7c7d')):
            hole = cards_of(hole_t)
            kind = hr.CLASSES[clsname][0]
            rest = [c for c in DECKS[kind] if c not in hole]
            for j, board in enumerate(combinations(rest, 3)):
                if j % of == shard:
                    check_input(res, rng, clsname, hole, board)
            for j, board in enumerate(combinations(rest, 5)):
                if j % (of * 97) == shard:
                    check_input(res, rng, clsname, hole, board)
                if j % 4096 == 0 and time.time() > deadline:
                    res.truncated = True
                    break
    res.evaluations = res.counters['inputs'] + \
        res.counters['state_hands_checked']
    return res


def replay(payload):
    res = Shard()
    rng = random.Random(1)
    if 'state' in payload:
        return [{'what': 'state-level witness: replay with C05 probes is '
                 'not deterministic; see the description', 'kf': None}]
    mk = {'list': lambda x: (list(x), 'list'),
          'tuple': lambda x: (tuple(x), 'tuple'),
          'str': lambda x: (text_of(x), 'str'),
          'iterator': lambda x: (iter(x), 'iterator'),
          'filter': lambda x: (filter(None, list(x)), 'filter')}
    hole = cards_of(payload['hole'])
    board = cards_of(payload['board'])
    kind, low, rule = hr.CLASSES[payload['cls']]
    cls = getattr(pk_hands, payload['cls'])
    fh, fb = payload.get('forms', ['list', 'list'])
    best = hr.best_strength(payload['cls'], hole, board)
    try:
        hand = cls.from_game(mk[fh](hole)[0], mk[fb](board)[0])
    except ValueError:
        hand = None
    got = None if hand is None else hr.strength(kind, low, hand.cards)
    out = []
    if got != best:
        out.append({'what': f'{payload["cls"]}.from_game({payload["hole"]!r},'
                    f' {payload["board"]!r}) [{fh},{fb}] = {hand!r} '
                    f'(strength {got}), best legal {best}', 'kf': None})
    elif hand is not None and not hr.obeys_rule(payload['cls'], hand.cards,
                                                hole, board):
        out.append({'what': 'illegal selection', 'kf': None})
    return out
