"""Reference betting round for C03, written from the property statement, the
documentation and the changelog's description of WSOP rule 96 -- not from
state.py (DESIGN C03)."""
from __future__ import annotations


class RefRound:

    def __init__(self, n, live, stack, bet, structure, street_min, cap,
                 tournament, bring_in, opener, pot_collected):
        self.n = n
        self.live = list(live)
        self.stack = list(stack)
        self.bet = list(bet)
        self.structure = structure
        self.street_min = street_min
        self.cap = cap
        self.tournament = tournament
        self.bring_in = bring_in
        self.pot_collected = pot_collected
        self.max_incr = 0          # largest raise increment so far
        self.count = 0             # bets/raises/completions so far
        self.acted = set()         # acted since the last full raise
        self.allin_run = []        # consecutive all-in raise increments
        self.bring_in_pending = bring_in > 0
        self.completion_pending = bring_in > 0
        order = [(opener + k) % n for k in range(n)]
        self.queue = [i for i in order if self._can_act_at_start(i)]
        if len(self.queue) == 1 and \
                self.bet[self.queue[0]] >= max(self.bet):
            self.queue = []        # nobody to bet into: the round is void

    # -- helpers ---------------------------------------------------------
    def _best_other_total(self, i):
        v = [self.stack[j] + self.bet[j]
             for j in range(self.n) if j != i and self.live[j]]
        return max(v) if v else 0

    def _can_act_at_start(self, i):
        return (self.live[i] and self.stack[i] > 0
                and self._best_other_total(i) > self.bet[i])

    @property
    def over(self):
        return (not self.queue) or sum(self.live) <= 1

    @property
    def actor(self):
        return None if self.over else self.queue[0]

    @property
    def maxbet(self):
        return max(self.bet)

    # -- what the actor may do -------------------------------------------
    def fold_status(self):
        """'ok' | 'warn' (cash game, no bet to face) | 'no'"""
        a = self.actor
        if a is None or self.bring_in_pending:
            return 'no'
        if self.bet[a] >= self.maxbet:
            return 'no' if self.tournament else 'warn'
        return 'ok'

    def can_call(self):
        return self.actor is not None and not self.bring_in_pending

    def call_amount(self):
        a = self.actor
        return min(self.stack[a], self.maxbet - self.bet[a])

    def can_bring_in(self):
        return self.actor is not None and self.bring_in_pending

    def bring_in_amount(self):
        return min(self.stack[self.actor], self.bring_in)

    def raise_refusal(self):
        """None if a bet/raise is admissible, else the reason."""
        a = self.actor
        if a is None:
            return 'nobody to act'
        if self.cap is not None and self.count == self.cap:
            return 'cap reached'
        if self.allin_run and sum(self.allin_run) < self.max_incr \
                and a in self.acted:
            return 'already acted, short all-in does not reopen'
        if self.stack[a] <= self.maxbet - self.bet[a]:
            return 'covered'
        if not any(j != a and self.live[j]
                   and self.stack[j] + self.bet[j] > self.maxbet
                   for j in range(self.n)):
            return 'nobody could call more'
        return None

    def min_to(self):
        a = self.actor
        need = max(self.max_incr, self.street_min)
        if not self.completion_pending:
            need += self.maxbet
        eff = min(self.stack[a],
                  max(0, self._best_other_total(a) - self.bet[a]))
        return min(self.bet[a] + eff, need)

    def pot_to(self):
        a = self.actor
        total = self.pot_collected + sum(self.bet)
        return min(self.stack[a] + self.bet[a],
                   max(self.min_to(), 2 * self.maxbet - self.bet[a] + total))

    def max_to(self):
        a = self.actor
        if self.structure == 'Fixed-limit':
            return self.min_to()
        if self.structure == 'Pot-limit':
            return self.pot_to()
        return self.stack[a] + self.bet[a]

    # -- transitions -----------------------------------------------------
    def _pop(self):
        a = self.queue.pop(0)
        self.acted.add(a)
        return a

    def fold(self):
        a = self._pop()
        self.live[a] = False
        return a

    def call(self):
        amt = self.call_amount()
        a = self._pop()
        self.bet[a] += amt
        self.stack[a] -= amt
        return a, amt

    def post_bring_in(self):
        amt = self.bring_in_amount()
        a = self._pop()
        self.bet[a] += amt
        self.stack[a] -= amt
        self.bring_in_pending = False
        return a, amt

    def raise_to(self, x):
        a = self._pop()
        incr = x - self.maxbet
        d = x - self.bet[a]
        self.bet[a] = x
        self.stack[a] -= d
        self.bring_in_pending = False
        self.completion_pending = False
        self.queue = [
            (a + k) % self.n for k in range(1, self.n)
            if self.live[(a + k) % self.n]
            and self.stack[(a + k) % self.n] > 0]
        if incr >= self.max_incr:
            self.acted = {a}
        self.max_incr = max(self.max_incr, incr)
        self.count += 1
        if self.stack[a] > 0:
            self.allin_run = []
        else:
            self.allin_run.append(incr)
        return a
