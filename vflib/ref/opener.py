"""Independent model of who opens a betting round (C13)."""
from __future__ import annotations

from collections import Counter

STD = '23456789TJQKA'
REG = 'A23456789TJQK'
SUITS = 'cdhs'


def can_act(state, i):
    if not state.statuses[i] or state.stacks[i] <= 0:
        return False
    others = [state.stacks[j] + state.bets[j]
              for j in range(state.player_count)
              if j != i and state.statuses[j]]
    return bool(others) and max(others) > state.bets[i]


def exposed_key(cards, order):
    """(category, ranks by multiplicity then rank) -- no straights/flushes."""
    ranks = [order.index(c.rank.value) for c in cards]
    cnt = Counter(ranks)
    groups = sorted(cnt.items(), key=lambda kv: (kv[1], kv[0]), reverse=True)
    shape = tuple(sorted(cnt.values(), reverse=True))
    if shape[0] == 4:
        cat = 5
    elif shape[0] == 3:
        cat = 4
    elif shape[:2] == (2, 2):
        cat = 3
    elif shape[0] == 2:
        cat = 2
    else:
        cat = 1
    return (len(cards), cat, tuple(r for r, _ in groups))


def designated(state):
    """The seat the rules designate to open the current round."""
    n = state.player_count
    op = state.street.opening.name
    if op == 'POSITION':
        if any(state.bets):
            best = None
            for i in range(n):
                raw = state.blinds_or_straddles[i]
                # posts by late-seated players (negative entries) never count
                v = state.bets[i] if raw > 0 else (
                    -state.bets[i] if raw < 0 else 0)
                if best is None or (v, i) >= best:
                    best = (v, i)
            return (best[1] + 1) % n
        return 0
    # exposed cards read from the raw piles (not through get_up_cards)
    ups = {i: [c for c, u in zip(state.hole_cards[i],
                                 state.hole_card_statuses[i]) if u]
           for i in range(n) if state.statuses[i]}
    if op == 'LOW_CARD':
        return min(ups, key=lambda i: min(
            (STD.index(c.rank.value), SUITS.index(c.suit.value))
            for c in ups[i]))
    if op == 'HIGH_CARD':
        return max(ups, key=lambda i: max(
            (REG.index(c.rank.value), SUITS.index(c.suit.value))
            for c in ups[i]))
    if op == 'HIGH_HAND':
        best = max(exposed_key(ups[i], STD) for i in ups)
        return min(i for i in ups if exposed_key(ups[i], STD) == best)
    if op == 'LOW_HAND':
        best = min(exposed_key(ups[i], REG) for i in ups)
        return min(i for i in ups if exposed_key(ups[i], REG) == best)
    raise AssertionError(op)


def first_actor(state):
    d = designated(state)
    n = state.player_count
    for k in range(n):
        i = (d + k) % n
        if can_act(state, i):
            return i
    return None
