"""Independent pot / payout model for C02 and C12 (DESIGN C02).

Works from the operation log only (never from State.pots / payoffs):
contributions -> layers -> eligible sets -> constraints on the pushes.
"""
from __future__ import annotations

from fractions import Fraction

from vflib.ref import handrank as hr


def collection_faults(state):
    """Independent rule for what a bet collection takes: with two or more
    players still in, only the part of the largest bet that exceeds the
    second-largest bet ON THE TABLE (dead bets of folded players count) goes
    back; everything else is collected. (Untrimmed antes are collected in
    full.)  Returns descriptions of collections that took something else."""
    n = state.player_count
    bets = [0] * n
    alive = [True] * n
    ante_phase = True
    out = []
    for k_op, op in enumerate(state.operations):
        k = type(op).__name__
        if k not in ('AntePosting', 'BetCollection', 'NoOperation'):
            was_ante = ante_phase
            ante_phase = False
        if k in ('AntePosting', 'BlindOrStraddlePosting', 'BringInPosting',
                 'CheckingOrCalling'):
            bets[op.player_index] += op.amount
        elif k == 'CompletionBettingOrRaisingTo':
            bets[op.player_index] = op.amount
        elif k == 'Folding':
            alive[op.player_index] = False
        elif k == 'BetCollection':
            if sum(alive) >= 2:
                if ante_phase and not state.ante_trimming_status:
                    exp = list(bets)
                else:
                    cutoff = sorted(bets)[-2]
                    exp = [min(b, cutoff) for b in bets]
                if list(op.bets) != exp:
                    out.append(
                        f'bet collection #{k_op} took {list(op.bets)} from '
                        f'bets {bets} (players in: {alive}); only the part '
                        f'of the largest bet above the second-largest bet '
                        f'on the table is uncalled: expected {exp}')
            bets = [0] * n
        elif k == 'ChipsPushing':
            break
    return out


def contributions_from_log(state):
    """Chips each player has in the pot(s) when pushing starts, and the part
    of them that was posted as ante."""
    n = state.player_count
    c = [0] * n
    bets = [0] * n
    antes = [0] * n
    ante_phase = True
    for op in state.operations:
        k = type(op).__name__
        if k not in ('AntePosting', 'BetCollection', 'NoOperation'):
            ante_phase = False
        if k == 'AntePosting':
            bets[op.player_index] += op.amount
            c[op.player_index] += op.amount
            antes[op.player_index] += op.amount
        elif k in ('BlindOrStraddlePosting', 'BringInPosting',
                   'CheckingOrCalling'):
            bets[op.player_index] += op.amount
            c[op.player_index] += op.amount
        elif k == 'CompletionBettingOrRaisingTo':
            d = op.amount - bets[op.player_index]
            bets[op.player_index] = op.amount
            c[op.player_index] += d
        elif k == 'BetCollection':
            for i in range(n):
                back = bets[i] - op.bets[i]   # uncalled part / own bet
                c[i] -= back
                if ante_phase:
                    antes[i] -= back           # trimmed ante returned
                bets[i] = 0
        elif k == 'ChipsPushing':
            break
    return c, antes


def ref_pots(state, contrib, antes, live):
    """[(amount, eligible tuple)] main pot first."""
    n = state.player_count
    c = list(contrib)
    dead = 0
    if not state.ante_trimming_status:
        for i in range(n):
            dead += antes[i]
            c[i] -= antes[i]
    levels = sorted(set(c))
    prev = 0
    pots = []
    first = True
    for lv in levels:
        amt = sum(lv - prev for i in range(n) if c[i] >= lv)
        if first:
            amt += dead
            first = False
        elig = tuple(i for i in range(n) if c[i] >= lv and live[i])
        if not elig:
            # dead money nobody live reached: contested by the pot below
            elig = pots[-1][1] if pots else tuple(
                i for i in range(n) if live[i])
        if pots and pots[-1][1] == elig:
            pots[-1] = (pots[-1][0] + amt, elig)
        elif amt:
            pots.append((amt, elig))
        prev = lv
    return pots


def _fl(a, d):
    if isinstance(a, int):
        return a // d
    return a / d


TOL = [0]


def _lt(a, b):
    """a < b beyond the rounding tolerance (0 for int / Fraction chips)."""
    return a < b - TOL[0]


def _ne(a, b):
    return abs(a - b) > TOL[0]


def check(state, live, hole, rake_fn=None):
    """Return (violations, model pots, facts) for a terminal state."""
    v = []
    facts = {}
    n = state.player_count
    inexact = any(type(x).__name__ in ('float', 'Decimal')
                  for x in state.starting_stacks)
    total = sum(state.starting_stacks)
    TOL[0] = (type(total)('1e-9') if type(total).__name__ == 'Decimal'
              else 1e-9) * max(1, total) if inexact else 0
    contrib, antes = contributions_from_log(state)
    v.extend(collection_faults(state)[:2])
    pots = ref_pots(state, contrib, antes, live)
    pushes = [op for op in state.operations
              if type(op).__name__ == 'ChipsPushing']
    # number of boards, from the log: starting boards x agreed run-outs
    prefs = [op.runout_count for op in state.operations
             if type(op).__name__ == 'RunoutCountSelection'
             and op.runout_count is not None]
    runs = prefs[0] if prefs and all(c == prefs[0] for c in prefs) else 1
    nb = state.starting_board_count * runs
    if state.board_count != nb and sum(live) > 1:
        v.append(f'{state.board_count} boards at the end, the log says '
                 f'{state.starting_board_count} starting boards x {runs} '
                 f'agreed run-outs')
        return v, pots, facts
    rake_fn = rake_fn or state.rake
    raked = [rake_fn(a, state) for a, _ in pots]
    by_pot = {}
    for op in pushes:
        by_pot.setdefault(op.pot_index, []).append(op)
    facts['pots'] = len(pots)
    facts['live'] = sum(live)
    # (5) folded / mucked / killed players win nothing
    for op in pushes:
        for i, a in enumerate(op.amounts):
            if a and not live[i]:
                v.append(f'player {i} is out of the hand but was pushed {a}')
            if a < 0:
                v.append(f'negative push {a} to player {i}')
    total_unraked = sum(r[1] for r in raked)
    if sum(live) == 1:
        w = live.index(True)
        got = sum(op.amounts[w] for op in pushes)
        if _ne(got, total_unraked):
            v.append(f'lone survivor {w}: pushed {got} != everything '
                     f'collected minus rake {total_unraked} (model pots '
                     f'{pots})')
        _check_payoffs(state, contrib, pushes, v)
        return v, pots, facts
    if sum(live) == 0:
        facts['nobody_live'] = True
        return v, pots, facts
    if len(by_pot) > len(pots) or any(p >= len(pots) for p in by_pot):
        v.append(f'pushes name pots {sorted(by_pot)} but the model has '
                 f'{len(pots)} pots {pots}')
    ties = 0
    for p, (amt, elig) in enumerate(pots):
        unrk = raked[p][1]
        ops = by_pot.get(p, [])
        got = sum(op.total_amount for op in ops)
        if _ne(got, unrk):
            v.append(f'pot {p}: pushed {got} != model {unrk} (eligible '
                     f'{elig}, model pots {pots})')
        for op in ops:
            for i, a in enumerate(op.amounts):
                if a and i not in elig:
                    v.append(f'pot {p}: player {i} paid {a} but is not '
                             f'eligible {elig}')
        per_board = {}
        for op in ops:
            per_board.setdefault(op.board_index, []).append(op)
        for b in range(nb):
            bops = per_board.get(b, [])
            S = sum(op.total_amount for op in bops)
            if _lt(S, _fl(unrk, nb)):
                v.append(f'pot {p} board {b}: share {S} < even share '
                         f'{_fl(unrk, nb)} of {unrk}')
            board = tuple(state.get_board_cards(b))
            W = {}
            for t, ht in enumerate(state.hand_types):
                # strength from the independent evaluator of C04/C05 (the
                # engine's own evaluation is cross-checked, not trusted)
                mine = {i: [c for c in hole[i] if c] for i in elig}
                ref = {i: hr.best_strength(ht.__name__, mine[i], board)
                       if ht.__name__ in hr.CLASSES else None for i in elig}
                if ht.__name__ in hr.CLASSES:
                    known = [x for x in ref.values() if x is not None]
                    if known:
                        best = max(known)
                        W[t] = [i for i in elig if ref[i] == best]
                    try:
                        hands = {i: ht.from_game_or_none(mine[i], board)
                                 for i in elig}
                        ek = [h for h in hands.values() if h is not None]
                        ew = sorted(i for i in elig if ek and hands[i]
                                    is not None and hands[i] == max(ek))
                    except Exception as exc:   # noqa: BLE001
                        ew = f'{type(exc).__name__}: {exc}'
                    if ew != sorted(W.get(t, [])):
                        v.append(
                            f'pot {p} board {b} type {t}: the engine\'s '
                            f'evaluator ranks {ew} best, the reference '
                            f'evaluator {sorted(W.get(t, []))} (cards '
                            f'{mine}, board {board})')
                else:
                    hands = {i: ht.from_game_or_none(mine[i], board)
                             for i in elig}
                    known = [h for h in hands.values() if h is not None]
                    if known:
                        best = max(known)
                        W[t] = [i for i in elig if hands[i] is not None
                                and hands[i] == best]
                if t in W and len(W[t]) > 1:
                    ties += 1
            got_b = [sum(op.amounts[i] for op in bops) for i in range(n)]
            if not W:
                if S:
                    v.append(f'pot {p} board {b}: {got_b} paid but nobody '
                             f'eligible holds a hand')
                continue
            share = _fl(S, len(W))
            for i in range(n):
                inw = [w for w in W.values() if i in w]
                if not inw:
                    if got_b[i]:
                        v.append(f'pot {p} board {b}: player {i} holds no '
                                 f'winning hand but got {got_b[i]} '
                                 f'(winners by hand type {W})')
                else:
                    lb = sum(_fl(share, len(w)) for w in inw)
                    if _lt(got_b[i], lb):
                        v.append(f'pot {p} board {b}: winner {i} got '
                                 f'{got_b[i]} < floor share {lb} (winners '
                                 f'{W}, board share {S})')
            for op in bops:
                t = op.hand_type_index
                if t in W:
                    q = _fl(op.total_amount, len(W[t]))
                    for k, i in enumerate(W[t]):
                        if _lt(op.amounts[i], q):
                            v.append(f'pot {p} board {b} type {t}: winner '
                                     f'{i} below the equal share {q}: '
                                     f'{op.amounts}')
                        if k > 0 and _lt(q, op.amounts[i]):
                            v.append(f'pot {p} board {b} type {t}: odd '
                                     f'chips went to {i}, not to the '
                                     f'earliest winner {W[t][0]}: '
                                     f'{op.amounts}')
                    for i, a in enumerate(op.amounts):
                        if a and i not in W[t]:
                            v.append(f'pot {p} board {b} type {t}: '
                                     f'non-winner {i} paid {a} (winners '
                                     f'{W[t]})')
    facts['ties'] = ties
    _check_payoffs(state, contrib, pushes, v)
    # nobody wins from an opponent more than he himself put in: a player can
    # collect at most the pots he is eligible for, minus his own chips. With
    # every layer owned by somebody this is the classic
    # sum_j min(c_j, c_i); a layer whose claimants have all mucked or been
    # killed belongs to the pot below it (DESIGN section 3, F10), and the
    # bound follows the model pots in that case too.
    rk = [rake_fn(a, state)[1] for a, _ in pots]
    for i in range(n):
        bound = sum(u for u, (a, elig) in zip(rk, pots) if i in elig) \
            - contrib[i]
        if _lt(bound, state.payoffs[i]):
            v.append(f'player {i} won {state.payoffs[i]} > what the pots he '
                     f'is eligible for hold beyond his own chips {bound} '
                     f'(contributions {contrib}, model pots {pots})')
    return v, pots, facts


def _check_payoffs(state, contrib, pushes, v):
    for i in range(state.player_count):
        exp = sum(op.amounts[i] for op in pushes) - contrib[i]
        if _ne(state.payoffs[i], exp):
            v.append(f'payoff of player {i} is {state.payoffs[i]}, pushes '
                     f'minus contribution give {exp}')
