"""Independent hand evaluator for C04 / C05 (no prime products, no tables).

refkey(kind, cards) -> tuple or None.  The tuple is ordered like a HIGH
evaluation (bigger tuple = higher category / higher cards); low hand types
reverse it for strength.  `kind` names the lookup family:
  standard, shortdeck, regular (ace-to-five), eightorbetter, badugi (ace low),
  stdbadugi (deuce low, ace high), kuhn
"""
from __future__ import annotations

from collections import Counter
from itertools import combinations

STD = '23456789TJQKA'
SD = '6789TJQKA'
REG = 'A23456789TJQK'
EOB = 'A2345678'
KUHN = 'JQK'

LABELS = {0: 'High card', 1: 'One pair', 2: 'Two pair',
          3: 'Three of a kind', 4: 'Straight', 5: 'Flush', 6: 'Full house',
          7: 'Four of a kind', 8: 'Straight flush'}


def _rs(cards):
    return [c.rank.value for c in cards], [c.suit.value for c in cards]


def _known(cards):
    return all(c.rank.value != '?' and c.suit.value != '?' for c in cards)


def five(cards, order, straights=True, flushes=True, flush_over_full=False):
    if len(cards) != 5 or not _known(cards):
        return None
    if len(set(cards)) != 5:
        return None
    r, s = _rs(cards)
    if any(x not in order for x in r):
        return None
    idx = sorted((order.index(x) for x in r), reverse=True)
    cnt = Counter(idx)
    shape = tuple(sorted(cnt.values(), reverse=True))
    groups = tuple(k for k, _ in sorted(
        cnt.items(), key=lambda kv: (kv[1], kv[0]), reverse=True))
    flush = flushes and len(set(s)) == 1
    straight = False
    top = None
    if straights and shape == (1, 1, 1, 1, 1):
        if idx[0] - idx[4] == 4:
            straight, top = True, idx[0]
        elif idx == [len(order) - 1, 3, 2, 1, 0]:
            straight, top = True, 3          # the ace plays low
    if shape == (1, 1, 1, 1, 1):
        if straight and flush:
            return (8, (top,))
        if flush:
            return (6 if flush_over_full else 5, groups)
        if straight:
            return (4, (top,))
        return (0, groups)
    if shape == (2, 1, 1, 1):
        return (1, groups)
    if shape == (2, 2, 1):
        return (2, groups)
    if shape == (3, 1, 1):
        return (3, groups)
    if shape == (3, 2):
        return (5 if flush_over_full else 6, groups)
    if shape == (4, 1):
        return (7, groups)
    return None


def label_of(kind, key):
    if kind in ('badugi', 'stdbadugi', 'kuhn', 'eightorbetter'):
        return 'High card'
    cat = key[0]
    if kind == 'shortdeck' and cat in (5, 6):
        return 'Full house' if cat == 5 else 'Flush'
    return LABELS[cat]


def refkey(kind, cards):
    cards = tuple(cards)
    if kind == 'standard':
        return five(cards, STD)
    if kind == 'shortdeck':
        return five(cards, SD, flush_over_full=True)
    if kind == 'regular':
        return five(cards, REG, straights=False, flushes=False)
    if kind == 'eightorbetter':
        k = five(cards, EOB, straights=False, flushes=False)
        return k if k is not None and k[0] == 0 else None
    if kind in ('badugi', 'stdbadugi'):
        order = REG if kind == 'badugi' else STD
        if not 1 <= len(cards) <= 4 or not _known(cards):
            return None
        r, s = _rs(cards)
        if len(set(r)) != len(r) or len(set(s)) != len(s):
            return None
        idx = tuple(sorted((order.index(x) for x in r), reverse=True))
        # fewer cards = "higher" (worse) in the index orientation
        return (4 - len(cards), idx)
    if kind == 'kuhn':
        if len(cards) != 1 or not _known(cards):
            return None
        if cards[0].rank.value not in KUHN:
            return None
        return (0, (KUHN.index(cards[0].rank.value),))
    raise ValueError(kind)


# hand class name -> (kind, low flag, composition rule)
CLASSES = {
    'StandardHighHand': ('standard', False, 'any5'),
    'StandardLowHand': ('standard', True, 'any5'),
    'ShortDeckHoldemHand': ('shortdeck', False, 'any5'),
    'EightOrBetterLowHand': ('eightorbetter', True, 'any5'),
    'RegularLowHand': ('regular', True, 'any5'),
    'GreekHoldemHand': ('standard', False, 'greek'),
    'OmahaHoldemHand': ('standard', False, 'omaha'),
    'OmahaEightOrBetterLowHand': ('eightorbetter', True, 'omaha'),
    'BadugiHand': ('badugi', True, 'badugi'),
    'StandardBadugiHand': ('stdbadugi', True, 'badugi'),
    'KuhnPokerHand': ('kuhn', False, 'kuhn'),
}


def strength(kind, low, cards):
    """Comparable strength (bigger = stronger) or None."""
    k = refkey(kind, cards)
    if k is None:
        return None
    if low:
        return tuple(-x if isinstance(x, int) else tuple(-y for y in x)
                     for x in k)
    return k


def legal_combinations(rule, hole, board):
    hole = tuple(hole)
    board = tuple(board)
    if rule == 'any5':
        yield from combinations(hole + board, 5)
    elif rule == 'greek':
        # both hole cards plus three board cards
        if len(hole) >= 2:
            for b in combinations(board, 3):
                yield from combinations(hole + b, 5)
    elif rule == 'omaha':
        for h in combinations(hole, 2):
            for b in combinations(board, 3):
                yield h + b
    elif rule == 'badugi':
        allc = hole + board
        for k in (4, 3, 2, 1):
            yield from combinations(allc, k)
    elif rule == 'kuhn':
        for c in hole + board:
            yield (c,)
    else:
        raise ValueError(rule)


def best_strength(clsname, hole, board):
    kind, low, rule = CLASSES[clsname]
    best = None
    for combo in legal_combinations(rule, hole, board):
        s = strength(kind, low, combo)
        if s is not None and (best is None or s > best):
            best = s
    return best


def obeys_rule(clsname, cards, hole, board):
    """Are `cards` a legal selection from (hole, board) under the rule?"""
    kind, low, rule = CLASSES[clsname]
    cards = tuple(cards)
    pool = Counter(tuple(hole) + tuple(board))
    if Counter(cards) - pool:
        return False
    if rule == 'omaha':
        h = sum(1 for c in cards if c in hole)
        b = sum(1 for c in cards if c in board)
        return len(cards) == 5 and h == 2 and b == 3
    if rule == 'greek':
        hole = tuple(hole)
        return len(cards) == 5 and len(hole) == 2 and all(
            c in cards for c in hole)
    return True
