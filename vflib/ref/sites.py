"""Renderers of an engine-played no-limit hold'em hand into the text formats
of the six supported sites (C20).  Written from knowledge of the site formats
and the grammar the importer documents in its patterns; the per-site amount
conventions are stated at each renderer."""
from __future__ import annotations

from decimal import Decimal


def money(x, sym='$', sep=False):
    if isinstance(x, Decimal):
        t = f'{x:,.2f}' if sep else f'{x:.2f}'
        if x == x.to_integral_value() and not sep:
            t = str(int(x))
        elif x == x.to_integral_value():
            t = f'{int(x):,}'
    else:
        t = f'{x:,}' if sep else str(x)
    return f'{sym}{t}'


def hand_record(state, names, seats, hand_id, scale=1):
    """Neutral record of a finished NT hand (engine indices); amounts are
    multiplied by `scale` (integer cents -> Decimal dollars)."""
    r = _hand_record(state, names, seats, hand_id)
    if scale != 1:
        def sc(x):
            return x * scale
        r['events'] = [
            (e[0], e[1]) + tuple(sc(x) for x in e[2:5]) + e[5:]
            if e[0] in ('call', 'bet', 'raise', 'blind') else e
            for e in r['events']]
        r['blinds'] = [e for e in r['events'] if e[0] == 'blind']
        n = r['n']
        r['blinds'].sort(key=lambda e: (e[1] != (1 if n == 2 else 0)))
        for k in ('sb', 'bb', 'nominal_sb', 'nominal_bb'):
            r[k] = sc(r[k])
        for k in ('collected', 'stacks', 'final'):
            r[k] = [sc(x) for x in r[k]]
    return r


def _hand_record(state, names, seats, hand_id):
    n = state.player_count
    bet = [0] * n
    events = []
    board = []
    street = 0
    collected = [0] * n
    for op in state.operations:
        k = type(op).__name__
        if k == 'BlindOrStraddlePosting':
            i = op.player_index
            bet[i] += op.amount
            events.append(('blind', i, op.amount))
        elif k == 'BetCollection':
            bet = [0] * n
        elif k == 'Folding':
            events.append(('fold', op.player_index))
        elif k == 'CheckingOrCalling':
            i = op.player_index
            if op.amount:
                bet[i] += op.amount
                events.append(('call', i, op.amount))
            else:
                events.append(('check', i))
        elif k == 'CompletionBettingOrRaisingTo':
            i = op.player_index
            mx = max(bet)
            added = op.amount - bet[i]
            by = op.amount - mx
            events.append(('bet' if mx == 0 else 'raise', i, added,
                           op.amount, by, added == state.starting_stacks[i]
                           or False))
            bet[i] = op.amount
        elif k == 'BoardDealing':
            street += 1
            events.append(('board', street, list(op.cards), list(board)))
            board.extend(op.cards)
        elif k == 'HoleCardsShowingOrMucking':
            if op.hole_cards and all(op.hole_cards):
                events.append(('show', op.player_index,
                               list(op.hole_cards)))
            else:
                events.append(('muck', op.player_index))
        elif k == 'ChipsPushing':
            for i, a in enumerate(op.amounts):
                collected[i] += a
    holes = {}
    for op in state.operations:
        if type(op).__name__ == 'HoleDealing':
            holes.setdefault(op.player_index, []).extend(op.cards)
    # the button: last position (heads-up: index 1 is the small blind/button)
    button = 1 if n == 2 else n - 1
    blinds = [e for e in events if e[0] == 'blind']
    sb = min((e[2] for e in blinds), default=0)
    bb = max((e[2] for e in blinds), default=0)
    # posted order on a site: small blind first
    order = sorted(blinds, key=lambda e: (e[1] != (1 if n == 2 else 0)))
    return dict(n=n, names=names, seats=seats, button=button, events=events,
                blinds=order, sb=sb, bb=bb, holes=holes, board=board,
                collected=collected, stacks=list(state.starting_stacks),
                final=list(state.stacks), hand_id=hand_id,
                nominal_sb=state.blinds_or_straddles[0],
                nominal_bb=state.blinds_or_straddles[1])


def cards_txt(cards, sep=' ', ten='T'):
    return sep.join(repr(c).replace('T', ten) for c in cards)


def _seat_lines(r, fmt):
    idx = sorted(range(r['n']), key=lambda i: r['seats'][i])
    if r.get('seat_line_order'):
        # the seat LINES in another order (join order, attribute order): the
        # seat numbers, not the line order, say where a player sits
        idx = [idx[k] for k in r['seat_line_order']]
    return [fmt(r['seats'][i], r['names'][i], r['stacks'][i]) for i in idx]


# --------------------------------------------------------------------------
# PokerStars: "raises $X to $Y" -- X is the increment over the current bet,
# Y the total; "bets $X"; "calls $X" (chips added).

def pokerstars(r, hero=None, sym='$'):
    m = lambda x: money(x, sym)   # noqa: E731
    nm = r['names']
    L = [f"PokerStars Hand #{r['hand_id']}:  Hold'em No Limit "
         f"({m(r['nominal_sb'])}/{m(r['nominal_bb'])} USD) - 2009/07/06 "
         f"12:34:56 ET",
         f"Table 'Alder II' 9-max Seat #{r['seats'][r['button']]} is the "
         f"button"]
    L += _seat_lines(r, lambda s, p, c: f'Seat {s}: {p} ({m(c)} in chips)')
    for e in r['blinds']:
        kind = 'small' if e is r['blinds'][0] and len(r['blinds']) > 1 \
            else 'big'
        L.append(f'{nm[e[1]]}: posts {kind} blind {m(e[2])}')
    L.append('*** HOLE CARDS ***')
    if hero is not None and hero in r['holes']:
        L.append(f"Dealt to {nm[hero]} [{cards_txt(r['holes'][hero])}]")
    shown = False
    for e in r['events']:
        if e[0] == 'fold':
            L.append(f'{nm[e[1]]}: folds')
        elif e[0] == 'check':
            L.append(f'{nm[e[1]]}: checks')
        elif e[0] == 'call':
            L.append(f'{nm[e[1]]}: calls {m(e[2])}')
        elif e[0] == 'bet':
            L.append(f'{nm[e[1]]}: bets {m(e[3])}')
        elif e[0] == 'raise':
            L.append(f'{nm[e[1]]}: raises {m(e[4])} to {m(e[3])}')
        elif e[0] == 'board':
            name = {1: 'FLOP', 2: 'TURN', 3: 'RIVER'}[e[1]]
            if e[1] == 1:
                L.append(f'*** FLOP *** [{cards_txt(e[2])}]')
            else:
                L.append(f'*** {name} *** [{cards_txt(e[3])}] '
                         f'[{cards_txt(e[2])}]')
        elif e[0] in ('show', 'muck'):
            if not shown:
                L.append('*** SHOW DOWN ***')
                shown = True
            if e[0] == 'show':
                L.append(f'{nm[e[1]]}: shows [{cards_txt(e[2])}] (a hand)')
            else:
                L.append(f'{nm[e[1]]}: mucks hand')
    for i, c in enumerate(r['collected']):
        if c:
            L.append(f'{nm[i]} collected {m(c)} from pot')
    L.append('*** SUMMARY ***')
    L.append(f"Total pot {m(sum(r['collected']))} | Rake {m(0)}")
    if r['board']:
        L.append(f"Board [{cards_txt(r['board'])}]")
    for i in sorted(range(r['n']), key=lambda i: r['seats'][i]):
        if r['collected'][i]:
            L.append(f"Seat {r['seats'][i]}: {nm[i]} collected "
                     f"({m(r['collected'][i])})")
        else:
            L.append(f"Seat {r['seats'][i]}: {nm[i]} folded or lost")
    return '\n'.join(L) + '\n\n\n'


# --------------------------------------------------------------------------
# Full Tilt: "raises to $Y" (total), "bets $X", thousands separators.

def full_tilt(r, sep=True, sym='$'):
    m = lambda x: money(x, sym, sep)   # noqa: E731
    nm = r['names']
    L = [f"Full Tilt Poker Game #{r['hand_id']}: Table Alder (9 max) - "
         f"{m(r['nominal_sb'])}/{m(r['nominal_bb'])} - No Limit Hold'em - "
         f"12:34:56 ET - 2009/07/06"]
    L += _seat_lines(r, lambda s, p, c: f'Seat {s}: {p} ({m(c)})')
    for e in r['blinds']:
        kind = 'small' if e is r['blinds'][0] and len(r['blinds']) > 1 \
            else 'big'
        L.append(f'{nm[e[1]]} posts the {kind} blind of {m(e[2])}')
    L.append(f"The button is in seat #{r['seats'][r['button']]}")
    L.append('*** HOLE CARDS ***')
    shown = False
    for e in r['events']:
        if e[0] == 'fold':
            L.append(f'{nm[e[1]]} folds')
        elif e[0] == 'check':
            L.append(f'{nm[e[1]]} checks')
        elif e[0] == 'call':
            L.append(f'{nm[e[1]]} calls {m(e[2])}')
        elif e[0] == 'bet':
            L.append(f'{nm[e[1]]} bets {m(e[3])}')
        elif e[0] == 'raise':
            L.append(f'{nm[e[1]]} raises to {m(e[3])}')
        elif e[0] == 'board':
            name = {1: 'FLOP', 2: 'TURN', 3: 'RIVER'}[e[1]]
            if e[1] == 1:
                L.append(f'*** FLOP *** [{cards_txt(e[2])}]')
            else:
                L.append(f'*** {name} *** [{cards_txt(e[3])}] '
                         f'[{cards_txt(e[2])}]')
        elif e[0] in ('show', 'muck'):
            if not shown:
                L.append('*** SHOW DOWN ***')
                shown = True
            if e[0] == 'show':
                L.append(f'{nm[e[1]]} shows [{cards_txt(e[2])}] a hand')
            else:
                L.append(f'{nm[e[1]]} mucks')
    for i, c in enumerate(r['collected']):
        if c:
            L.append(f'{nm[i]} wins the pot ({m(c)})')
    L.append('*** SUMMARY ***')
    L.append(f"Total pot {m(sum(r['collected']))} | Rake {m(0)}")
    for i in sorted(range(r['n']), key=lambda i: r['seats'][i]):
        if r['collected'][i]:
            L.append(f"Seat {r['seats'][i]}: {nm[i]} collected "
                     f"({m(r['collected'][i])})")
        else:
            L.append(f"Seat {r['seats'][i]}: {nm[i]} lost")
    return '\n'.join(L) + '\n\n\n'


# --------------------------------------------------------------------------
# PartyPoker: every amount is what the player ADDS with that action.

def partypoker(r, sym='$'):
    def m(x):
        return f'{money(x, sym)} USD'
    nm = r['names']
    L = [f"Game #{r['hand_id']} starts.", '',
         f"#Game No : {r['hand_id']} ",
         f"***** Hand History for Game {r['hand_id']} *****",
         f"{m(100)} NL Texas Hold'em - Monday, July 06, 12:34:56 EDT 2009",
         'Table Speed #1234567 (Real Money)',
         f"Seat {r['seats'][r['button']]} is the button",
         f"Total number of players : {r['n']}/9 "]
    L += _seat_lines(r, lambda s, p, c: f'Seat {s}: {p} ( {m(c)} )')
    for e in r['blinds']:
        kind = 'small' if e is r['blinds'][0] and len(r['blinds']) > 1 \
            else 'big'
        L.append(f'{nm[e[1]]} posts {kind} blind [{m(e[2])}].')
    L.append('** Dealing down cards **')
    for e in r['events']:
        if e[0] == 'fold':
            L.append(f'{nm[e[1]]} folds')
        elif e[0] == 'check':
            L.append(f'{nm[e[1]]} checks')
        elif e[0] == 'call':
            L.append(f'{nm[e[1]]} calls [{m(e[2])}]')
        elif e[0] == 'bet':
            L.append(f'{nm[e[1]]} bets [{m(e[2])}]')
        elif e[0] == 'raise':
            L.append(f'{nm[e[1]]} raises [{m(e[2])}]')
        elif e[0] == 'board':
            name = {1: 'Flop', 2: 'Turn', 3: 'River'}[e[1]]
            L.append(f'** Dealing {name} ** [ {cards_txt(e[2], ", ")} ]')
        elif e[0] == 'show':
            L.append(f'{nm[e[1]]} shows [ {cards_txt(e[2], ", ")} ]a hand.')
        elif e[0] == 'muck':
            L.append(f'{nm[e[1]]} does not show cards.')
    for i, c in enumerate(r['collected']):
        if c:
            L.append(f'{nm[i]} wins {m(c)} from the main pot with a hand.')
    return '\n'.join(L) + '\n\n\n'


# --------------------------------------------------------------------------
# Absolute: "Raises $X to $Y" -- the importer documents X as the chips the
# player adds; "Bets $X"; tens are written "10h".

def absolute(r, sym='$'):
    m = lambda x: money(x, sym)   # noqa: E731
    nm = r['names']
    L = [f"Stage #{r['hand_id']}: Holdem  No Limit {m(r['nominal_bb'])} - "
         f"2009-07-01 12:34:56 (ET)",
         f"Table: RIVER RD (Real Money) Seat #{r['seats'][r['button']]} is "
         f"the dealer"]
    L += _seat_lines(r, lambda s, p, c: f'Seat {s} - {p} ({m(c)} in chips)')
    for e in r['blinds']:
        kind = 'small' if e is r['blinds'][0] and len(r['blinds']) > 1 \
            else 'big'
        L.append(f'{nm[e[1]]} - Posts {kind} blind {m(e[2])}')
    L.append('*** POCKET CARDS ***')
    shown = False
    for e in r['events']:
        if e[0] == 'fold':
            L.append(f'{nm[e[1]]} - Folds')
        elif e[0] == 'check':
            L.append(f'{nm[e[1]]} - Checks')
        elif e[0] == 'call':
            L.append(f'{nm[e[1]]} - Calls {m(e[2])}')
        elif e[0] == 'bet':
            L.append(f'{nm[e[1]]} - Bets {m(e[2])}')
        elif e[0] == 'raise':
            L.append(f'{nm[e[1]]} - Raises {m(e[2])} to {m(e[3])}')
        elif e[0] == 'board':
            name = {1: 'FLOP', 2: 'TURN', 3: 'RIVER'}[e[1]]
            if e[1] == 1:
                L.append(f'*** FLOP *** [{cards_txt(e[2], " ", "10")}]')
            else:
                L.append(f'*** {name} *** [{cards_txt(e[3], " ", "10")}] '
                         f'[{cards_txt(e[2], " ", "10")}]')
        elif e[0] in ('show', 'muck'):
            if not shown:
                L.append('*** SHOW DOWN ***')
                shown = True
            if e[0] == 'show':
                L.append(f'{nm[e[1]]} - Shows '
                         f'[{cards_txt(e[2], " ", "10")}] (a hand)')
            else:
                L.append(f'{nm[e[1]]} - Mucks')
    for i, c in enumerate(r['collected']):
        if c:
            L.append(f'{nm[i]} Collects {m(c)} from main pot')
    L.append('*** SUMMARY ***')
    L.append(f"Total Pot({m(sum(r['collected']))})")
    for i in sorted(range(r['n']), key=lambda i: r['seats'][i]):
        if r['collected'][i]:
            L.append(f"Seat {r['seats'][i]}: {nm[i]} collected Total "
                     f"({m(r['collected'][i])})")
        else:
            L.append(f"Seat {r['seats'][i]}: {nm[i]} lost")
    return '\n'.join(L) + '\n\n\n'


# --------------------------------------------------------------------------
# Ongame: "bets $X" (total), "raises $X to $Y" -- X = chips added (importer's
# documented convention); shown cards only in the summary seat lines.

def ongame(r, sym='$'):
    m = lambda x: money(x, sym)   # noqa: E731
    nm = r['names']
    hid = f"R5-{r['hand_id']}-12"
    L = [f'***** History for hand {hid} *****',
         'Start hand: Mon Jul 6 12:34:56 GMT+0100 2009',
         f"Table: Tokyo [123456] (NO_LIMIT TEXAS_HOLDEM "
         f"{m(r['nominal_sb'])}/{m(r['nominal_bb'])}, Real money)",
         'User: nobody',
         f"Button: seat {r['seats'][r['button']]}",
         f"Players in round: {r['n']}"]
    L += _seat_lines(r, lambda s, p, c: f'Seat {s}: {p} ({m(c)}) ')
    for e in r['blinds']:
        kind = 'small' if e is r['blinds'][0] and len(r['blinds']) > 1 \
            else 'big'
        L.append(f'{nm[e[1]]} posts {kind} blind ({m(e[2])})')
    L.append('---')
    L.append('Dealing pocket cards')
    shows = {}
    for e in r['events']:
        if e[0] == 'fold':
            L.append(f'{nm[e[1]]} folds')
        elif e[0] == 'check':
            L.append(f'{nm[e[1]]} checks')
        elif e[0] == 'call':
            L.append(f'{nm[e[1]]} calls {m(e[2])}')
        elif e[0] == 'bet':
            L.append(f'{nm[e[1]]} bets {m(e[3])}')
        elif e[0] == 'raise':
            L.append(f'{nm[e[1]]} raises {m(e[2])} to {m(e[3])}')
        elif e[0] == 'board':
            name = {1: 'flop', 2: 'turn', 3: 'river'}[e[1]]
            L.append(f'--- Dealing {name} [{cards_txt(e[2], ", ")}]')
        elif e[0] == 'show':
            shows[e[1]] = e[2]
    L.append('---')
    L.append('Summary:')
    for i, c in enumerate(r['collected']):
        if c:
            L.append(f'Main pot: {m(c)} won by {nm[i]} ({m(c)})')
    L.append(f'Rake taken: {m(0)}')
    for i in sorted(range(r['n']), key=lambda i: r['seats'][i]):
        net = r['final'][i] - r['stacks'][i]
        sign = '+' if net > 0 else ('-' if net < 0 else '')
        line = (f"Seat {r['seats'][i]}: {nm[i]} ({m(r['final'][i])}), net: "
                f"{sign}{m(abs(net))}")
        if i in shows:
            line += f', [{cards_txt(shows[i], ", ")}] (A HAND)'
        L.append(line)
    L.append(f'***** End of hand {hid} *****')
    return '\n'.join(L) + '\n\n\n'


# --------------------------------------------------------------------------
# iPoker (XML): type 1/2 blinds, 0 fold, 4 check, 3 call, 5 bet (sum =
# total), 23 raise (sum = total), 6 = raise given as chips added. Pocket
# cards of players who show are known; cards are suit-first lower-case
# tokens with 10 for the ten.

def ipoker(r, sym='$', use_type6=False):
    m = lambda x: money(x, sym)   # noqa: E731
    nm = r['names']

    def ct(cards):
        return ' '.join(
            (repr(c)[1] + repr(c)[0]).replace('T', '10') for c in cards)
    shows = {e[1]: e[2] for e in r['events'] if e[0] == 'show'}
    L = [f'<game gamecode="{r["hand_id"]}">', '<general>',
         '<startdate>2009-07-06 12:34:56</startdate>', '<players>']
    order = sorted(range(r['n']), key=lambda i: r['seats'][i])
    if r.get('seat_line_order'):
        order = [order[k] for k in r['seat_line_order']]
    for i in order:
        L.append(
            f'<player seat="{r["seats"][i]}" name="{nm[i]}" '
            f'chips="{m(r["stacks"][i])}" '
            f'dealer="{1 if i == r["button"] else 0}" '
            f'win="{m(r["collected"][i])}" bet="{m(0)}" />')
    L += ['</players>', '</general>', '<round no="0">']
    no = 0
    for e in r['blinds']:
        no += 1
        kind = 1 if e is r['blinds'][0] and len(r['blinds']) > 1 else 2
        L.append(f'<action no="{no}" player="{nm[e[1]]}" type="{kind}" '
                 f'sum="{m(e[2])}" cards=""/>')
    L.append('</round>')
    L.append('<round no="1">')
    for i in range(r['n']):
        if i in shows:
            L.append(f'<cards type="Pocket" player="{nm[i]}">'
                     f'{ct(shows[i])}</cards>')
        else:
            L.append(f'<cards type="Pocket" player="{nm[i]}">X X</cards>')
    rnd = 1
    for e in r['events']:
        if e[0] == 'board':
            rnd += 1
            name = {1: 'Flop', 2: 'Turn', 3: 'River'}[e[1]]
            L.append('</round>')
            L.append(f'<round no="{rnd}">')
            L.append(f'<cards type="{name}" player="">{ct(e[2])}</cards>')
            continue
        if e[0] in ('show', 'muck', 'blind'):
            continue
        no += 1
        if e[0] == 'fold':
            t, s = 0, 0
        elif e[0] == 'check':
            t, s = 4, 0
        elif e[0] == 'call':
            t, s = 3, e[2]
        elif e[0] == 'bet':
            t, s = 5, e[3]
        else:
            t, s = (6, e[2]) if use_type6 else (23, e[3])
        L.append(f'<action no="{no}" player="{nm[e[1]]}" type="{t}" '
                 f'sum="{m(s)}" cards=""/>')
    L.append('</round>')
    L.append('</game>')
    return '\n'.join(L) + '\n\n\n'


RENDERERS = {
    'pokerstars': (pokerstars, 'from_pokerstars'),
    'full_tilt': (full_tilt, 'from_full_tilt_poker'),
    'partypoker': (partypoker, 'from_partypoker'),
    'absolute': (absolute, 'from_absolute_poker'),
    'ongame': (ongame, 'from_ongame_network'),
    'ipoker': (ipoker, 'from_ipoker_network'),
}
