#!/bin/sh
# run every check of one tier sequentially; usage: tools/runall.sh quick|thorough [seed] [props...]
cd "$(dirname "$0")/.."
mkdir -p .work evidence/replays
TIER=${1:-quick}; SEED=${2:-20260928}; shift; shift
PROPS=${*:-C01 C02 C03 C04 C05 C06 C07 C08 C09 C10 C11 C12 C13 C14 C15 C16 C17 C18 C19 C20}
for p in $PROPS; do
  s=$(date +%s)
  ./vf check $p --tier $TIER --seed $SEED > .work/runall_$p.out 2>&1; rc=$?
  e=$(date +%s)
  echo "$p tier=$TIER seed=$SEED rc=$rc wall=$((e-s))s $(grep -c '^VIOLATION' .work/runall_$p.out) violations; $(grep -E "^$p $TIER" .work/runall_$p.out | cut -c1-150)"
  grep -E '^(VIOLATION|INCONCLUSIVE|KNOWN-FINDING|  what)' .work/runall_$p.out | cut -c1-300
done
