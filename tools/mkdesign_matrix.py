#!/venv/bin/python
"""Fill the condensed kill matrix of DESIGN.md §6 (between the markers) and
rewrite seeded/KILLMATRIX.md from seeded/killmatrix.json."""
import glob, json, os, re, subprocess
ROOT = os.path.dirname(os.path.dirname(os.path.abspath(__file__)))
km = json.load(open(f'{ROOT}/seeded/killmatrix.json'))
fm = json.load(open(f'{ROOT}/seeded/first_missed.json'))
def short(t, n):
    t = ' '.join(str(t).split()).replace('|', '/')
    return t if len(t) <= n else t[:n - 1] + '…'
rows = ['| change | what it does | result |', '|---|---|---|']
for d in sorted(glob.glob(f'{ROOT}/seeded/C*')):
    name = os.path.basename(d)
    if not os.path.exists(f'{d}/meta.json'):
        continue
    m = json.load(open(f'{d}/meta.json'))
    tgt = [v for k, v in km.get(name, {}).items()
           if isinstance(v, dict) and k.startswith(name[:3] + '/quick')]
    rc = tgt[-1]['rc'] if tgt else None
    verdict = {1: 'caught', 0: 'MISSED in the last full run', 2: 'inconclusive', None: 'not run'}[rc]
    if name in fm and rc == 1:
        verdict = 'caught (after strengthening †)'
    rows.append(f"| {name} | {short(m.get('summary', ''), 140)} | {verdict} |")
table = '\n'.join(rows)
p = f'{ROOT}/DESIGN.md'
s = open(p).read()
if '@@MATRIX@@' in s:
    s = s.replace('@@MATRIX@@', '<!-- matrix:begin -->\n' + table + '\n<!-- matrix:end -->')
else:
    s = re.sub(r'<!-- matrix:begin -->.*?<!-- matrix:end -->',
               lambda _: '<!-- matrix:begin -->\n' + table + '\n<!-- matrix:end -->', s, flags=re.S)
open(p, 'w').write(s)
out = subprocess.run([f'{ROOT}/tools/mkseedtable.py'], capture_output=True, text=True).stdout
open(f'{ROOT}/seeded/KILLMATRIX.md', 'w').write(out)
print('rows', len(rows) - 2)
