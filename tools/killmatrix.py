#!/venv/bin/python
"""Run checks against seeded defects: for each mutant dir (patch.diff) make a
scratch worktree of /repo HEAD under /tmp/vfs, apply the patch, run
`VF_REPO=<wt> ./vf check <prop> --tier quick` (no evidence written) and record
whether the check fired.  usage: killmatrix.py [--src DIR] [--checks C01,C02|target] [filters...]"""
import json, os, subprocess, sys, glob, time
ROOT = os.path.dirname(os.path.dirname(os.path.abspath(__file__)))
args = sys.argv[1:]
src = '/tmp/mut/out'
checks = 'target'
outp = '/tmp/mut/kill.json'
tier = 'quick'
while args and args[0].startswith('--'):
    k = args.pop(0)
    if k == '--src': src = args.pop(0)
    elif k == '--checks': checks = args.pop(0)
    elif k == '--out': outp = args.pop(0)
    elif k == '--tier': tier = args.pop(0)
filters = args
res = json.load(open(outp)) if os.path.exists(outp) else {}
def sh(cmd, cwd=None, env=None, timeout=3600):
    p = subprocess.run(cmd, shell=True, cwd=cwd, env=env, capture_output=True, text=True, timeout=timeout)
    return p.returncode, p.stdout + p.stderr
built = sorted(f[:-3].upper() for f in os.listdir(f'{ROOT}/vflib/monitors') if f.startswith('c') and f.endswith('.py'))
os.makedirs('/tmp/vfs', exist_ok=True)
for d in sorted(glob.glob(f'{src}/C*/m*')) + sorted(glob.glob(f'{src}/C*-*')):
    if not os.path.exists(f'{d}/patch.diff'): continue
    key = '/'.join(d.split('/')[-2:]) if '/m' in d[-4:] else os.path.basename(d)
    if filters and not any(f in key for f in filters): continue
    target = key[:3]
    todo = [target] if checks == 'target' else (built if checks == 'all' else checks.split(','))
    todo = [c for c in todo if c in built]
    wt = f'/tmp/vfs/km_{key.replace("/", "_")}'
    sh(f'git -C /repo worktree remove --force {wt}')
    rc, o = sh(f'git -C /repo worktree add --detach {wt} HEAD')
    if rc: print('worktree failed', o); continue
    try:
        rc, o = sh(f'git apply {d}/patch.diff', cwd=wt)
        if rc:
            res.setdefault(key, {})['apply'] = 'FAILED: ' + o[-300:]; print(key, 'apply failed'); continue
        for c in todo:
            if c in res.get(key, {}) and not os.environ.get('KM_FORCE'): continue
            env = dict(os.environ, VF_REPO=wt, VF_NO_EVIDENCE='1', VF_WORKTAG='_km')
            t = time.time()
            rc, o = sh(f'./vf check {c} --tier {tier}', cwd=ROOT, env=env)
            first = next((l for l in o.splitlines() if l.startswith('  what:')), '')
            res.setdefault(key, {})[c] = {'rc': rc, 'first': first[:400], 'wall': round(time.time() - t, 1)}
            print(key, c, 'rc=', rc, first[:200], flush=True)
            json.dump(res, open(outp, 'w'), indent=1)
    finally:
        sh(f'git -C /repo worktree remove --force {wt}')
json.dump(res, open(outp, 'w'), indent=1)
