#!/venv/bin/python
"""Print the markdown table of seeded changes for DESIGN §6 from
seeded/*/meta.json, seeded/killmatrix.json and seeded/first_missed.json."""
import glob, json, os
ROOT = os.path.dirname(os.path.dirname(os.path.abspath(__file__)))
km = json.load(open(f'{ROOT}/seeded/killmatrix.json'))
fm = json.load(open(f'{ROOT}/seeded/first_missed.json'))
print('| change | what it does (site) | needs to manifest | target check, quick tier | witness reported |')
print('|---|---|---|---|---|')
def short(t, n):
    t = ' '.join(str(t).split()).replace('|', '/')
    return t if len(t) <= n else t[:n - 1] + '…'
for d in sorted(glob.glob(f'{ROOT}/seeded/C*')):
    name = os.path.basename(d)
    if not os.path.exists(f'{d}/meta.json'):
        continue
    m = json.load(open(f'{d}/meta.json'))
    res = km.get(name, {})
    tgt = [v for k, v in res.items() if isinstance(v, dict) and k.startswith(name[:3] + '/quick')]
    rc = tgt[-1]['rc'] if tgt else None
    verdict = {1: 'caught', 0: 'MISSED', 2: 'inconclusive', None: 'not run'}[rc]
    if name in fm:
        verdict = f'missed at first; caught after: {fm[name]}'
    wit = short(tgt[-1]['first'].replace('what:', '').split('||')[0], 150) if tgt else ''
    print(f"| {name} | {short(m.get('summary', ''), 230)} | {short(m.get('needs_to_manifest', ''), 200)} | {verdict} | {wit} |")
