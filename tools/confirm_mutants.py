#!/venv/bin/python
"""Confirm fault-seeding results: for each /tmp/mut/out/Cxx/mN (patch.diff, demo.py)
  - demo exits 0 on a pristine worktree of /repo HEAD
  - patch applies; demo exits != 0 with it
  - the repository's own test suite still passes with it
Writes /tmp/mut/confirm.json. Scratch worktrees live under /tmp/vfs and are removed."""
import json, os, subprocess, sys, shutil, glob
OUT = '/tmp/mut/out'
WT = '/tmp/vfs/confirm'
only = sys.argv[1:]
res_path = '/tmp/mut/confirm.json'
res = json.load(open(res_path)) if os.path.exists(res_path) else {}
def sh(cmd, cwd=None, env=None, timeout=1800):
    p = subprocess.run(cmd, shell=True, cwd=cwd, env=env, capture_output=True, text=True, timeout=timeout)
    return p.returncode, (p.stdout + p.stderr)[-3000:]
os.makedirs('/tmp/vfs', exist_ok=True)
sh(f'git -C /repo worktree remove --force {WT}')
rc, o = sh(f'git -C /repo worktree add --detach {WT} HEAD'); assert rc == 0, o
env = dict(os.environ, PYTHONPATH=WT, PYTHONDONTWRITEBYTECODE='1')
try:
    for d in sorted(glob.glob(f'{OUT}/C*/m*')):
        key = '/'.join(d.split('/')[-2:])
        if only and not any(key.startswith(x) for x in only): continue
        if key in res and res[key].get('complete'): continue
        r = {}
        if not os.path.exists(f'{d}/patch.diff') or not os.path.exists(f'{d}/demo.py'):
            r['error'] = 'missing files'; res[key] = r; continue
        sh('git checkout -- . && git clean -fdq', cwd=WT)
        r['demo_pristine_rc'], o = sh(f'/venv/bin/python {d}/demo.py', cwd=WT, env=env, timeout=600)
        r['demo_pristine_tail'] = o[-200:]
        rc, o = sh(f'git apply {d}/patch.diff', cwd=WT)
        r['apply_rc'] = rc
        if rc != 0:
            r['apply_out'] = o; res[key] = r; print(key, r); continue
        r['demo_mutant_rc'], o = sh(f'/venv/bin/python {d}/demo.py', cwd=WT, env=env, timeout=600)
        r['demo_mutant_tail'] = o[-300:]
        rc, o = sh('/venv/bin/python -m pytest -q -p no:cacheprovider -n 10 2>&1 | tail -3', cwd=WT, env=env)
        r['tests_tail'] = o.strip().splitlines()[-1] if o.strip() else ''
        r['tests_pass'] = '145 passed' in o and 'failed' not in o
        r['complete'] = True
        res[key] = r
        print(key, {k: v for k, v in r.items() if not k.endswith('tail')}, flush=True)
        json.dump(res, open(res_path, 'w'), indent=1)
finally:
    sh(f'git -C /repo worktree remove --force {WT}')
    json.dump(res, open(res_path, 'w'), indent=1)
