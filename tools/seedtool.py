#!/venv/bin/python
"""Seeded-change bookkeeping (DESIGN §6).

  seedtool.py confirm <src_dir> <name>
      <src_dir> holds patch.diff, demo.py, meta.json written by a sub-agent in
      its own scratch worktree.  In a FRESH scratch worktree of /repo HEAD
      (under /tmp/vfs, removed afterwards) confirm that
        - demo.py exits 0 on the unchanged tree,
        - the patch applies, touches only pokerkit sources (no tests),
        - demo.py exits non-zero with the patch,
        - the repository's own 145 tests still pass with the patch;
      only then copy the three files to /verif/seeded/<name>/ and add the
      confirmation record to meta.json.
  seedtool.py kill [--checks target|all|C01,C02] [--tier quick] [--seeds a,b] [names...]
      For each /verif/seeded/<name>: scratch worktree + patch, run
      `VF_REPO=<wt> ./vf check <prop>` (no evidence written) and record
      rc / first witness in /verif/seeded/killmatrix.json.
"""
import glob
import json
import os
import shutil
import subprocess
import sys
import time

ROOT = os.path.dirname(os.path.dirname(os.path.abspath(__file__)))
SEEDED = os.path.join(ROOT, 'seeded')
VFS = '/tmp/vfs'


def sh(cmd, cwd=None, env=None, timeout=3600):
    p = subprocess.run(cmd, shell=True, cwd=cwd, env=env, capture_output=True,
                       text=True, timeout=timeout)
    return p.returncode, p.stdout + p.stderr


def worktree(name):
    os.makedirs(VFS, exist_ok=True)
    wt = os.path.join(VFS, name)
    sh(f'git -C /repo worktree remove --force {wt}')
    shutil.rmtree(wt, ignore_errors=True)
    sh('git -C /repo worktree prune')
    rc, o = sh(f'git -C /repo worktree add --detach {wt} HEAD')
    if rc:
        raise SystemExit('worktree failed: ' + o)
    return wt


def drop(wt):
    sh(f'git -C /repo worktree remove --force {wt}')
    shutil.rmtree(wt, ignore_errors=True)
    sh('git -C /repo worktree prune')


def confirm(src, name):
    need = ['patch.diff', 'demo.py']
    for n in need:
        if not os.path.exists(os.path.join(src, n)):
            print(name, 'missing', n)
            return False
    meta = {}
    mp = os.path.join(src, 'meta.json')
    if os.path.exists(mp):
        try:
            meta = json.load(open(mp))
        except Exception as e:  # noqa
            meta = {'meta_unreadable': str(e)}
    patch = open(os.path.join(src, 'patch.diff')).read()
    touched = [l[6:].strip() for l in patch.splitlines()
               if l.startswith('+++ b/')]
    r = {'files_in_patch': touched}
    if any('/tests/' in t or not t.startswith('pokerkit/') for t in touched):
        r['rejected'] = 'patch touches tests or files outside pokerkit/'
        print(name, r)
        return False
    wt = worktree('confirm_' + name)
    env = dict(os.environ, PYTHONPATH=wt, PYTHONDONTWRITEBYTECODE='1',
               PYTHONHASHSEED='0')
    ok = False
    try:
        demo = os.path.join(src, 'demo.py')
        shutil.copy(demo, os.path.join(wt, '_demo.py'))
        r['demo_clean_rc'], o = sh('/venv/bin/python _demo.py', cwd=wt,
                                   env=env, timeout=900)
        r['demo_clean_tail'] = o[-300:]
        rc, o = sh(f'git apply {os.path.join(src, "patch.diff")}', cwd=wt)
        r['apply_rc'] = rc
        if rc:
            r['apply_out'] = o[-400:]
        else:
            r['demo_patched_rc'], o = sh('/venv/bin/python _demo.py', cwd=wt,
                                         env=env, timeout=900)
            r['demo_patched_tail'] = o[-600:]
            os.unlink(os.path.join(wt, '_demo.py'))
            rc, o = sh('/venv/bin/python -m pytest -q -p no:cacheprovider '
                       '-n 6 2>&1 | tail -3', cwd=wt, env=env)
            last = o.strip().splitlines()[-1] if o.strip() else ''
            r['tests_tail'] = last
            r['tests_pass'] = ('145 passed' in o and 'failed' not in o
                               and 'error' not in o.lower())
            ok = (r['demo_clean_rc'] == 0 and r['demo_patched_rc'] != 0
                  and r['tests_pass'])
    finally:
        drop(wt)
    r['confirmed'] = ok
    r['confirmed_at_repo_head'] = sh('git -C /repo rev-parse --short HEAD')[1].strip()
    r['ran'] = ('fresh worktree of /repo HEAD: demo.py (expect 0); git apply '
                'patch.diff; demo.py (expect != 0); pytest -n 6 (expect 145 '
                'passed)')
    print(name, {k: v for k, v in r.items() if not k.endswith('tail')},
          flush=True)
    if ok:
        dst = os.path.join(SEEDED, name)
        os.makedirs(dst, exist_ok=True)
        shutil.copy(os.path.join(src, 'patch.diff'), dst)
        shutil.copy(os.path.join(src, 'demo.py'), dst)
        meta = dict(meta)
        meta.setdefault('property', name[:3])
        meta['confirmation'] = r
        json.dump(meta, open(os.path.join(dst, 'meta.json'), 'w'), indent=1)
    else:
        os.makedirs(os.path.join(ROOT, '.work'), exist_ok=True)
        json.dump(r, open(os.path.join(ROOT, '.work',
                                       f'rejected_{name}.json'), 'w'), indent=1)
    return ok


def kill(argv):
    checks = 'target'
    tier = 'quick'
    seeds = ['20260928']
    while argv and argv[0].startswith('--'):
        k = argv.pop(0)
        if k == '--checks':
            checks = argv.pop(0)
        elif k == '--tier':
            tier = argv.pop(0)
        elif k == '--seeds':
            seeds = argv.pop(0).split(',')
    outp = os.path.join(SEEDED, 'killmatrix.json')
    res = json.load(open(outp)) if os.path.exists(outp) else {}
    built = sorted(f[:-3].upper() for f in os.listdir(
        f'{ROOT}/vflib/monitors') if f.startswith('c') and f.endswith('.py'))
    for d in sorted(glob.glob(f'{SEEDED}/C*')):
        name = os.path.basename(d)
        if not os.path.exists(f'{d}/patch.diff'):
            continue
        if argv and not any(a in name for a in argv):
            continue
        target = name[:3]
        todo = [target] if checks == 'target' else (
            built if checks == 'all' else checks.split(','))
        wt = worktree('km_' + name)
        try:
            rc, o = sh(f'git apply {d}/patch.diff', cwd=wt)
            if rc:
                res.setdefault(name, {})['apply'] = 'FAILED ' + o[-300:]
                print(name, 'apply failed')
                continue
            for c in todo:
                for seed in seeds:
                    key = f'{c}/{tier}/{seed}'
                    env = dict(os.environ, VF_REPO=wt, VF_NO_EVIDENCE='1',
                               VF_WORKTAG='_km_' + name)
                    t = time.time()
                    rc, o = sh(f'./vf check {c} --tier {tier} --seed {seed}',
                               cwd=ROOT, env=env)
                    first = next((l for l in o.splitlines()
                                  if l.startswith('  what:')), '')
                    res.setdefault(name, {})[key] = {
                        'rc': rc, 'first': first[:500],
                        'wall': round(time.time() - t, 1)}
                    print(name, key, 'rc=', rc, first[:220], flush=True)
                    json.dump(res, open(outp, 'w'), indent=1, sort_keys=True)
                    shutil.rmtree(os.path.join(ROOT, '.work', c + '_km_' + name),
                                  ignore_errors=True)
                    shutil.rmtree(os.path.join(ROOT, '.work',
                                               'replays_km_' + name),
                                  ignore_errors=True)
        finally:
            drop(wt)
    json.dump(res, open(outp, 'w'), indent=1, sort_keys=True)


if __name__ == '__main__':
    if sys.argv[1] == 'confirm':
        sys.exit(0 if confirm(sys.argv[2], sys.argv[3]) else 1)
    elif sys.argv[1] == 'kill':
        kill(sys.argv[2:])
