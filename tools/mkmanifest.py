#!/venv/bin/python
"""Regenerate /verif/MANIFEST.json from the table below (kept valid at all times)."""
import json, os, sys
ROOT = os.path.dirname(os.path.dirname(os.path.abspath(__file__)))
sys.path.insert(0, ROOT)

CHECKS = {
 'C01': dict(technique='runtime invariant monitor at the State._update hook (chip identity, non-negativity, terminal zero-sum; divmod/rake postconditions)',
             text='Held on every operation of the generated executions: an invariant monitor observes stacks+bets+pots after every single operation (incl. automated ones) of tens of thousands of random hostile hands; universality is approached by volume and hostile input classes, not proved.',
             note='Trusts the hook (events == len(operations) checked per hand) and the generator\'s own rake/divmod callables; float/Decimal within rounding.', ref='DESIGN.md §2 C01'),
 'C06': dict(technique='runtime invariant monitor at the hook + shadow-copy diff per operation (card multiset and movement rules)',
             text='Held on every operation of the generated executions: the multiset of the six card places is compared with the configured deck after every operation and the movement rule of each operation type is checked against a shadow copy; deck exhaustion/replenishment is required to be observed.',
             note='Explicit cards come from get_dealable_cards(); unknown cards only face down.', ref='DESIGN.md §2 C06'),
 'C07': dict(technique='online trace checker (phase automaton, one-phase-active, bounded progress, no escaping exception) over hook + client-boundary events',
             text='Held on the generated executions under random automation subsets: trace specification checked online at every decision point and every operation; termination only in bounded form.',
             note='Bounded-progress form of termination; run-out counts feasible for the deck; known finding inexact_chip_division (float/Decimal) is listed in known_findings.json.', ref='DESIGN.md §2 C07'),
 'C02': dict(technique='offline checker over the recorded operation log against an independent side-pot/eligibility/payout model (constraint oracle)',
             text='Held on the generated terminal histories: every ChipsPushing of thousands of showdowns (side pots, ties, hi-lo, multi-board, rake) satisfies the payout constraints derived from the statement by a model that never reads State.pots or payoffs.',
             note='Hand strength from the independent evaluator of vflib/ref/handrank.py on the tabled cards (engine ranking cross-checked); number of boards from the log.', ref='DESIGN.md §2 C02'),
 'C03': dict(technique='online trace checker: reference betting round advanced by observed operations, compared at every decision + boundary probes of amounts',
             text='Held on the generated executions: at every betting decision the engine agrees with a ~150-line reference round on actor, round end, fold/call/bring-in legality and amounts, raise admissibility and the [min,max] interval, with amounts probed below/at/between/above the bounds.',
             note='First actor of a round taken from the engine (C13); documented conventions for straddles, short opening all-ins and the cap.', ref='DESIGN.md §2 C03'),
 'C13': dict(technique='runtime observation at the first decision of every betting round vs an independent opener model',
             text='Held on the generated executions: every judged round opening (blind/straddle/post layouts, stud up-card ties broken by suit, exposed-hand ties, all-in openers) equals the model\'s opener.',
             note='Rounds in which nobody can act expose no actor and are not judged.', ref='DESIGN.md §2 C13'),
 'C04': dict(technique='differential runtime check against an independent evaluator; exhaustive enumeration of every k-card subset in the thorough tier (order-isomorphism of rank classes + per-hand class membership + operator and rejection tiers)',
             text='Thorough tier enumerates the complete finite input space (every 5-card subset of each deck, every 1-4 card badugi subset) and the class table decides all pairs at once; quick tier is a seeded 1-in-10 stride plus all small spaces. Exploration-level claim: agreement with our reference evaluator on everything enumerated.',
             note='Trusted base: the ~100-line reference evaluator in vflib/ref/handrank.py encodes the rules of the statement.', ref='DESIGN.md §2 C04'),
 'C05': dict(technique='differential runtime check of from_game/from_game_or_none/get_hand/get_up_hand against brute force under each composition rule, incl. re-split and sibling-class sequences (history independence)',
             text='Held on >10^5 generated (hole, board) inputs per quick run (biased towards pairs, flushes, lows, no-low boards; several argument forms incl. one-shot iterators) and on sampled played states.',
             note='Strength from the C04 reference evaluator; Greek hold\'em with exactly two hole cards.', ref='DESIGN.md §2 C05'),
 'C09': dict(technique='twin run: automated execution vs manual re-execution of its log with default arguments on the same keyed deck, compared record by record and state by state; logged non-automated operations must equal the client calls; read-only Observer queries interleaved',
             text='Held on the generated twin pairs (quick: random subsets; thorough: all 2048 subsets round robin): every operation record, every decision-point state and the final state are equal.',
             note='Deterministic keyed shuffle installed by the harness.', ref='DESIGN.md §2 C09'),
 'C10': dict(technique='online trace checker per street instance derived from the Street tuple (burn/hole/board/draw bookkeeping, default dealee order, no actor before dealing completes, fallback)',
             text='Held on the generated executions: every dealing operation of tens of thousands of streets agrees with what the street definition prescribes for the players live at street start.',
             note='Default dealee in draw rounds: first player still owed cards.', ref='DESIGN.md §2 C10'),
 'C12': dict(technique='twin run (automatic show/muck/kill vs everybody tables) + reference floor shares with every hand tabled + direct check that no winning hand is mucked or killed; read-only Observer queries interleaved with run A',
             text='Held on the generated showdowns (side pots, ties, hi-lo, multi-board, run-outs): payoffs equal the everybody-tables twin, every winner was shown in full, tournament show constraints probed at every showdown decision.',
             note='Hand strength from the independent evaluator; floor-share oracle only without rake.', ref='DESIGN.md §2 C12'),
 'C14': dict(technique='trace + terminal-structure monitor for run-out selection, consensus rule and board structure',
             text='Held on the generated all-in hands: who is offered the selection and when, the agreed count, b*r complete boards sharing exactly the pre-all-in cards, operation counts after the all-in, even split of pots over boards.',
             note='Run-out counts limited to what the deck can serve.', ref='DESIGN.md §2 C14'),
 'C15': dict(technique='replay of the reported log on a fresh un-automated state, double execution (observed vs unobserved), deepcopy divergence with identity scan of mutable containers at call-count and phase-targeted copy points, and a record-vs-state-delta monitor at the State._update hook',
             text='Held on the generated histories: log replay reproduces every record and all state fields; re-execution is identical; copies share no container, do not change with the original, respond identically, and divergent continuations equal fresh replays.',
             note='Equality over all dataclass fields except automations and the divmod/rake callables.', ref='DESIGN.md §2 C15'),
 'C08': dict(technique='probe battery at sampled reachable states: can_x / verify_x / x on a deep copy for hostile argument sets, with a deep state fingerprint before and after every call',
             text='Held on >2*10^6 probe triplets per quick run over ~2*10^4 probed states of all phases (incl. after the hand): query, verifier and operation agree, refusals are ValueError/UserWarning, refused calls leave repr(State) unchanged, explicit indices are honoured.',
             note='Arguments of the documented types; fingerprint = repr of all dataclass fields.', ref='DESIGN.md §2 C08'),
 'C18': dict(technique='runtime check of algebraic identities (exhaustive over rank pairs and notation forms), differential against the engine showdown split and an independent Malmuth-Harville recursion',
             text='Range identities are enumerated completely on every run (13x13 rank pairs x all forms, both rank orders); equities of seeded fully specified deals are compared with what the engine pays for the same cards; ICM vectors against an exact-fraction reference.',
             note='The engine showdown (decided by C02) is the oracle for the equity split.', ref='DESIGN.md §2 C18'),
 'C19': dict(technique='representation-equivalence differential (same state from every raw form), exhaustive card text round trip, rejection table, swept postconditions of divmod/rake',
             text='Held on the generated vectors and forms: every representation yields the same antes/blinds/stacks and the same full state; all 70 rank x suit cards round-trip; each documented invalid layout is refused and its valid neighbour accepted; helper parts add up over swept inputs.',
             note='State equality over all dataclass fields except callables.', ref='DESIGN.md §2 C19'),
 'C11': dict(technique='specification table compared with every created state (static, complete per run) + dynamic monitors on playouts (offered raise intervals per structure, cap, hole card facings, low halves)',
             text='The static comparison covers all 12 classes and 11 variant codes completely on every run; the dynamic monitors held on the generated hands of every variant.',
             note='Trusted base: the SPEC table in vflib/monitors/c11.py states what the game names mean.', ref='DESIGN.md §2 C11'),
 'C16': dict(technique='round-trip runtime check (write, read, write again, replay incl. commentary sequence) with a counting wrapper around parse_action to detect silent truncation on corrupted histories; anonymised (unknown-card) hands',
             text='Held on the generated histories of all 11 variants (int and Decimal chips, terminal and partial, commentary, optional and user fields): field and text equality, replay equality of player-visible operations and stacks, unknown-hole-card replays, and raise-or-apply-everything on corruptions.',
             note='Single run-out, one board, no rake; strings TOML literals cannot carry are excluded.', ref='DESIGN.md §2 C16'),
 'C17': dict(technique='independent renderer of both protocols from the operation log compared with the library output for every viewer seat + loop closure through the protocol parser',
             text='Held on the generated fixed-limit and no-limit hands: Pluribus line, every S->/<-C message of every seat, and parse-back (same betting, board, stacks, and the same line again).',
             note='Blinds only, equal stacks, known cards (the protocols\' domain).', ref='DESIGN.md §2 C17'),
 'C20': dict(technique='round trip through synthetic site logs: engine-played hands rendered by our per-site renderers, imported, compared field by field and replayed',
             text='Held on the generated hands in all six formats: one history per hand, players in position order, blinds, stacks, betting/board/show actions in raise-to form, replay ending with the original stacks; absurd amounts are reported; multi-hand texts are split correctly.',
             note='No site corpus offline: renderers follow the site formats as known and otherwise the grammar the importer documents; detects regressions and internal inconsistencies. Known finding decimal_chop_subcent.', ref='DESIGN.md §2 C20'),
}
PENDING_REASON = 'check not built yet in this revision (runtime monitor planned, see DESIGN.md §2); not claimed until it exists'

def main():
    props = [json.loads(l) for l in open(os.path.join(ROOT, 'properties.jsonl'))]
    extra = {}
    p = os.path.join(ROOT, 'tools', 'checks_extra.json')
    if os.path.exists(p):
        extra = json.load(open(p))
    table = dict(CHECKS); table.update(extra)
    checks = []
    na = []
    for pr in props:
        pid = pr['id']
        if pid in table and os.path.exists(os.path.join(ROOT, 'vflib', 'monitors', pid.lower() + '.py')):
            t = table[pid]
            checks.append({
                'property_id': pid,
                'quick_cmd': f'./vf check {pid} --tier quick',
                'thorough_cmd': f'./vf check {pid} --tier thorough',
                'evidence_file': f'/verif/evidence/{pid}.json',
                'replay_cmd_template': './vf replay {path}',
                'engine': 'vflib',
                'level_claimed': {'category': 'exploration', 'text': t['text'], 'design_ref': t['ref']},
                'level_note': t['note'],
                'technique': t['technique'],
            })
        else:
            na.append({'property_id': pid, 'reason': PENDING_REASON})
    m = {
        'version': 1,
        'setup_cmd': './setup.sh',
        'hooks': {
            'guard': 'POKERKIT_VERIF',
            'enable': 'no hooks are committed to the repository: vflib/load.py replaces State._update and the module-level shuffle functions from the harness at import time (pure Python, nothing to build); checks import pokerkit from VF_REPO (default /repo)',
            'baseline_off_cmd': 'cd /repo && /venv/bin/python -m pytest -ra -q -p no:cacheprovider --timeout=900 --continue-on-collection-errors',
            'source_commits': [],
            'add_only': True,
        },
        'engines': [{
            'name': 'vflib', 'path': '/verif/vflib',
            'serves_properties': [c['property_id'] for c in checks],
            'kind_free_text': 'runtime monitoring harness: seeded workload generator + client-boundary driver + monitors on the State._update hook + independent reference models; sharded over 16 worker processes',
        }],
        'checks': checks,
        'not_applicable': na,
        'notes': 'All checks: exit 0 held on everything observed, exit 1 + VIOLATION line on a violation not listed in known_findings.json, exit 2 + INCONCLUSIVE line when the deciding monitor observed too little. VERIF_SEED / VERIF_TIER honoured. VF_REPO points the checks at another tree (used for the seeded-defect runs).',
    }
    json.dump(m, open(os.path.join(ROOT, 'MANIFEST.json'), 'w'), indent=1)
    print('checks:', [c['property_id'] for c in checks], 'na:', len(na))
main()
