#!/bin/sh
# confirm every sub-agent result under /tmp/seed*/Cxx/out/mK not yet processed
# (round 1: /tmp/seed -> Cxx-mK, round N: /tmp/seedN -> Cxx-rNmK)
cd "$(dirname "$0")/.."
for d in /tmp/seed*/C*/out/m*; do
  [ -f "$d/meta.json" ] && [ -f "$d/patch.diff" ] && [ -f "$d/demo.py" ] || continue
  root=$(echo $d | cut -d/ -f3); r=${root#seed}
  p=$(basename $(dirname $(dirname $d))); k=$(basename $d)
  if [ -z "$r" ]; then n="$p-$k"; else n="$p-r$r$k"; fi
  [ -d seeded/$n ] && continue
  [ -f .work/rejected_$n.json ] && continue
  /venv/bin/python tools/seedtool.py confirm $d $n 2>&1 | tail -1 | cut -c1-300
done
